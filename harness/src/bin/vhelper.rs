fn main(){}
