//! The executable every generated monorail command is (hard-linked under the command's file
//! name). It looks up its script by (argv[0], cwd) under $VERIF_HELPER_DIR, records `start`
//! first and `end` last with CLOCK_MONOTONIC stamps (so the recorded interval lies inside the
//! real one), and in between performs scripted steps: output chunks, sleeps, marker files,
//! barriers, tripwires, exit code.
use serde_json::{json, Value};
use sha2::{Digest, Sha256};
use std::io::Write;
use std::path::{Path, PathBuf};

fn now_ns() -> u64 {
    let mut ts = libc::timespec {
        tv_sec: 0,
        tv_nsec: 0,
    };
    unsafe {
        libc::clock_gettime(libc::CLOCK_MONOTONIC, &mut ts);
    }
    (ts.tv_sec as u64) * 1_000_000_000 + ts.tv_nsec as u64
}

fn key(argv0: &str, cwd: &str) -> String {
    let mut h = Sha256::new();
    h.update(argv0.as_bytes());
    h.update([0u8]);
    h.update(cwd.as_bytes());
    format!("{:x}", h.finalize())[..24].to_string()
}

struct Ev {
    file: std::fs::File,
}
impl Ev {
    fn emit(&mut self, v: Value) {
        let mut line = v.to_string();
        line.push('\n');
        let _ = self.file.write_all(line.as_bytes());
        let _ = self.file.flush();
    }
}

fn wait_for(paths: &[PathBuf], any: bool, timeout_ms: u64) -> bool {
    let deadline = now_ns() + timeout_ms * 1_000_000;
    loop {
        let n = paths.iter().filter(|p| p.exists()).count();
        if (any && n > 0) || (!any && n == paths.len()) {
            return true;
        }
        if now_ns() > deadline {
            return false;
        }
        std::thread::sleep(std::time::Duration::from_micros(500));
    }
}

fn b64(s: &str) -> Vec<u8> {
    // minimal base64 decoder (standard alphabet, padding optional)
    let mut out = vec![];
    let mut buf = 0u32;
    let mut bits = 0;
    for c in s.bytes() {
        let v = match c {
            b'A'..=b'Z' => c - b'A',
            b'a'..=b'z' => c - b'a' + 26,
            b'0'..=b'9' => c - b'0' + 52,
            b'+' => 62,
            b'/' => 63,
            _ => continue,
        } as u32;
        buf = (buf << 6) | v;
        bits += 6;
        if bits >= 8 {
            bits -= 8;
            out.push(((buf >> bits) & 0xff) as u8);
        }
    }
    out
}

fn main() {
    let t_start = now_ns();
    let args: Vec<String> = std::env::args().collect();
    let argv0 = args.first().cloned().unwrap_or_default();
    let cwd = std::env::current_dir()
        .map(|p| p.display().to_string())
        .unwrap_or_default();
    let dir = match std::env::var("VERIF_HELPER_DIR") {
        Ok(d) => PathBuf::from(d),
        Err(_) => {
            // not under a harness: behave like `true`
            std::process::exit(0);
        }
    };
    let k = key(&argv0, &cwd);
    let pid = std::process::id();
    let evdir = dir.join("events");
    let _ = std::fs::create_dir_all(&evdir);
    let file = std::fs::OpenOptions::new()
        .create(true)
        .append(true)
        .open(evdir.join(format!("{}-{}.ndjson", k, pid)))
        .expect("event file");
    let mut ev = Ev { file };
    let script: Option<Value> = std::fs::read_to_string(dir.join("scripts").join(format!("{}.json", k)))
        .ok()
        .and_then(|s| serde_json::from_str(&s).ok());
    let id = script.as_ref().map(|s| s["id"].clone()).unwrap_or(Value::Null);
    ev.emit(json!({"k": "start", "ts": t_start, "pid": pid, "key": k, "id": id, "argv": args, "cwd": cwd,
                   "exe": argv0, "scripted": script.is_some()}));
    let markers = dir.join("markers");
    let _ = std::fs::create_dir_all(&markers);
    let _ = std::fs::write(markers.join(format!("started-{}", k)), b"");
    let mut code = 0i32;
    if let Some(s) = &script {
        let resolve = |p: &str| -> PathBuf {
            if Path::new(p).is_absolute() {
                PathBuf::from(p)
            } else {
                markers.join(p)
            }
        };
        for step in s["steps"].as_array().cloned().unwrap_or_default() {
            match step["op"].as_str().unwrap_or("") {
                "out" => {
                    let data = if let Some(t) = step["text"].as_str() {
                        t.as_bytes().to_vec()
                    } else {
                        b64(step["b64"].as_str().unwrap_or(""))
                    };
                    if step["stream"].as_str() == Some("stderr") {
                        let mut e = std::io::stderr();
                        let _ = e.write_all(&data);
                        let _ = e.flush();
                    } else {
                        let mut o = std::io::stdout();
                        let _ = o.write_all(&data);
                        let _ = o.flush();
                    }
                }
                "sleep" => {
                    std::thread::sleep(std::time::Duration::from_millis(step["ms"].as_u64().unwrap_or(0)));
                }
                "touch" => {
                    let _ = std::fs::write(resolve(step["path"].as_str().unwrap_or("x")), b"");
                }
                "wait" => {
                    // wait until all (or any) of the marker files exist
                    let paths: Vec<PathBuf> = step["paths"]
                        .as_array()
                        .cloned()
                        .unwrap_or_default()
                        .iter()
                        .map(|p| resolve(p.as_str().unwrap_or("")))
                        .collect();
                    let any = step["any"].as_bool().unwrap_or(false);
                    let ok = wait_for(&paths, any, step["timeout_ms"].as_u64().unwrap_or(10_000));
                    if !ok {
                        let kind = step["on_timeout"].as_str().unwrap_or("wait_timeout");
                        ev.emit(json!({"k": kind, "ts": now_ns(), "key": k, "id": id}));
                    }
                }
                // a barrier that can be passed more than once (the same command listed twice in one run): on its n-th
                // execution the script announces `<name>-<n>` and waits for `<peer>-<n>` of every peer
                "arrive" => {
                    let cf = dir.join("markers").join(format!("count-{}-arrive", k));
                    let n: usize = std::fs::read_to_string(&cf).ok().and_then(|s| s.trim().parse().ok()).unwrap_or(0) + 1;
                    let _ = std::fs::write(&cf, format!("{}", n));
                    let _ = std::fs::write(markers.join(format!("{}-{}", step["name"].as_str().unwrap_or("arrive"), n)), b"");
                    let paths: Vec<PathBuf> = step["peers"]
                        .as_array()
                        .cloned()
                        .unwrap_or_default()
                        .iter()
                        .map(|p| markers.join(format!("{}-{}", p.as_str().unwrap_or(""), n)))
                        .collect();
                    let ok = wait_for(&paths, false, step["timeout_ms"].as_u64().unwrap_or(10_000));
                    if !ok {
                        let kind = step["on_timeout"].as_str().unwrap_or("wait_timeout");
                        ev.emit(json!({"k": kind, "ts": now_ns(), "key": k, "id": id}));
                    }
                }
                "close_output" => {
                    // detach from the capture pipes: the reader tasks see EOF while the process lives on
                    unsafe {
                        let devnull = libc::open(b"/dev/null\0".as_ptr() as *const libc::c_char, libc::O_WRONLY);
                        if devnull >= 0 {
                            libc::dup2(devnull, 1);
                            libc::dup2(devnull, 2);
                            libc::close(devnull);
                        }
                    }
                }
                "exit" => {
                    code = step["code"].as_i64().unwrap_or(0) as i32;
                    break;
                }
                // exit with codes[n] on the n-th execution of this script (the same command listed twice in one run)
                "exit_by_count" => {
                    let cf = dir.join("markers").join(format!("count-{}-exit", k));
                    let n: usize = std::fs::read_to_string(&cf).ok().and_then(|s| s.trim().parse().ok()).unwrap_or(0);
                    let _ = std::fs::write(&cf, format!("{}", n + 1));
                    if let Some(codes) = step["codes"].as_array() {
                        if !codes.is_empty() {
                            code = codes[n.min(codes.len() - 1)].as_i64().unwrap_or(0) as i32;
                        }
                    }
                    break;
                }
                // run another program (inheriting this process's environment), wait for it, record its exit status
                // and the tail of its stderr in a marker file
                "spawn" => {
                    let argv: Vec<String> = step["argv"].as_array().map(|a| a.iter().filter_map(|x| x.as_str().map(String::from)).collect()).unwrap_or_default();
                    if !argv.is_empty() {
                        let mut cmd = std::process::Command::new(&argv[0]);
                        cmd.args(&argv[1..]).stdin(std::process::Stdio::null()).stdout(std::process::Stdio::piped()).stderr(std::process::Stdio::piped());
                        if let Some(d) = step["cwd"].as_str() {
                            cmd.current_dir(d);
                        }
                        let res = cmd.output();
                        let rec = match res {
                            Ok(o) => json!({"rc": o.status.code().unwrap_or(-1), "stderr": String::from_utf8_lossy(&o.stderr).chars().rev().take(600).collect::<String>().chars().rev().collect::<String>(),
                                            "t0": now_ns()}),
                            Err(e) => json!({"rc": -2, "stderr": format!("spawn failed: {}", e)}),
                        };
                        let _ = std::fs::write(resolve(step["out"].as_str().unwrap_or("spawned")), rec.to_string());
                    }
                }
                // leave a descendant behind that keeps this process's stdout and stderr open for `ms` milliseconds
                // (what a command does that starts a background service and returns)
                "background_hold" => {
                    let ms = step["ms"].as_u64().unwrap_or(1000);
                    unsafe {
                        let pid = libc::fork();
                        if pid == 0 {
                            libc::setsid();
                            std::thread::sleep(std::time::Duration::from_millis(ms));
                            libc::_exit(0);
                        }
                    }
                }
                // change the mode of a file (path relative to this process's working directory unless absolute)
                "chmod" => {
                    use std::os::unix::fs::PermissionsExt;
                    if let (Some(pth), Some(mode)) = (step["path"].as_str(), step["mode"].as_u64()) {
                        let _ = std::fs::set_permissions(pth, std::fs::Permissions::from_mode(mode as u32));
                    }
                }
                // write `times` copies of a text (volume without a giant script); with "unique": true every copy gets a
                // running number and a pseudo-random tail so that the stream does not compress away
                "out_repeat" => {
                    let t = step["text"].as_str().unwrap_or("");
                    let times = step["times"].as_u64().unwrap_or(1);
                    let unique = step["unique"].as_bool().unwrap_or(false);
                    let to_err = step["stream"].as_str() == Some("stderr");
                    let mut buf: Vec<u8> = Vec::with_capacity(1 << 20);
                    let mut x: u64 = 0x9E3779B97F4A7C15;
                    for i in 0..times {
                        if unique {
                            x ^= x << 13; x ^= x >> 7; x ^= x << 17;
                            buf.extend_from_slice(format!("{:08} {:016x}{:016x} ", i, x, x.rotate_left(29)).as_bytes());
                        }
                        buf.extend_from_slice(t.as_bytes());
                        if buf.len() >= (1 << 20) || i + 1 == times {
                            if to_err {
                                let mut e = std::io::stderr();
                                let _ = e.write_all(&buf);
                                let _ = e.flush();
                            } else {
                                let mut o = std::io::stdout();
                                let _ = o.write_all(&buf);
                                let _ = o.flush();
                            }
                            buf.clear();
                        }
                    }
                }
                // die of a signal (after recording the end event with the negated signal number as code)
                "signal" => {
                    let sig = step["sig"].as_i64().unwrap_or(9) as i32;
                    let _ = std::fs::write(markers.join(format!("ended-{}", k)), b"");
                    ev.emit(json!({"k": "end", "ts": now_ns(), "key": k, "id": id, "code": -sig}));
                    unsafe {
                        libc::raise(sig);
                    }
                    std::thread::sleep(std::time::Duration::from_secs(5));
                    std::process::exit(128 + sig);
                }
                // print texts[n] on the n-th execution of this very script (counter file per script key), so that
                // repeated executions of one (command, target) in a single run differ in what they write
                "out_by_count" => {
                    let cf = dir.join("markers").join(format!("count-{}-{}", k, step["counter"].as_str().unwrap_or("c")));
                    let n: usize = std::fs::read_to_string(&cf).ok().and_then(|s| s.trim().parse().ok()).unwrap_or(0);
                    let _ = std::fs::write(&cf, format!("{}", n + 1));
                    if let Some(texts) = step["texts"].as_array() {
                        if !texts.is_empty() {
                            let t = texts[n.min(texts.len() - 1)].as_str().unwrap_or("");
                            if step["stream"].as_str() == Some("stderr") {
                                let mut e = std::io::stderr();
                                let _ = e.write_all(t.as_bytes());
                                let _ = e.flush();
                            } else {
                                let mut o = std::io::stdout();
                                let _ = o.write_all(t.as_bytes());
                                let _ = o.flush();
                            }
                        }
                    }
                }
                _ => {}
            }
        }
    }
    let _ = std::fs::write(markers.join(format!("ended-{}", k)), b"");
    ev.emit(json!({"k": "end", "ts": now_ns(), "key": k, "id": id, "code": code}));
    std::process::exit(code);
}
