//! In-process conformance driver: pushes TLC-enumerated (or randomly generated) cases into the
//! real monorail code through the cfg-guarded `monorail::verif` wrappers and records what the
//! implementation answered as ndjson records for the TLC judge. It maps concrete strings back
//! to abstract paths; it never decides whether an answer is right.
use monorail::verif;
use rand::rngs::StdRng;
use rand::seq::SliceRandom;
use rand::{Rng, SeedableRng};
use serde_json::{json, Value};
use std::collections::{BTreeMap, BTreeSet, HashMap};
use std::io::{BufRead, Write};
use std::path::{Path, PathBuf};

type APath = Vec<String>;

#[derive(Clone)]
struct Scheme {
    name: String,
    map: HashMap<String, String>,
    inv: HashMap<String, String>,
}
impl Scheme {
    fn new(name: &str, pairs: &[(&str, &str)]) -> Self {
        let mut map = HashMap::new();
        let mut inv = HashMap::new();
        for (a, c) in pairs {
            map.insert(a.to_string(), c.to_string());
            inv.insert(c.to_string(), a.to_string());
        }
        Scheme {
            name: name.to_string(),
            map,
            inv,
        }
    }
    fn identity() -> Self {
        Scheme {
            name: "identity".into(),
            map: HashMap::new(),
            inv: HashMap::new(),
        }
    }
    fn conc(&self, p: &APath) -> String {
        p.iter()
            .map(|c| self.map.get(c).cloned().unwrap_or_else(|| c.clone()))
            .collect::<Vec<_>>()
            .join("/")
    }
    fn abs(&self, s: &str) -> Value {
        // a path reported with one trailing separator is the same path
        let s = if s.len() > 1 && s.ends_with('/') { &s[..s.len() - 1] } else { s };
        if s.is_empty() {
            return json!(["<unmappable>", s]);
        }
        let mut out = vec![];
        for comp in s.split('/') {
            if self.map.is_empty() {
                if comp.is_empty() {
                    return json!(["<unmappable>", s]);
                }
                out.push(comp.to_string());
            } else {
                match self.inv.get(comp) {
                    Some(a) => out.push(a.clone()),
                    None => return json!(["<unmappable>", s]),
                }
            }
        }
        json!(out)
    }
}

fn schemes() -> Vec<Scheme> {
    vec![
        Scheme::new(
            "plain",
            &[("a", "a"), ("b", "b"), ("x", "x"), ("f", "f.txt"), ("g", "g.txt")],
        ),
        // sibling names that are string prefixes of each other
        Scheme::new(
            "app",
            &[("a", "app"), ("b", "app2"), ("x", "app-web"), ("f", "f"), ("g", "f2")],
        ),
        Scheme::new(
            "ab",
            // (b is a written twice, the file leaf is a written three times: repetition, not only prefix)
            &[("a", "a"), ("b", "aa"), ("x", "a-"), ("f", "aaa"), ("g", "ab")],
        ),
        // the outside directory and the file leaf are prefixes of the target names
        Scheme::new(
            "lib",
            &[("a", "lib2"), ("b", "lib"), ("x", "li"), ("f", "l"), ("g", "lib22")],
        ),
        Scheme::new(
            "utf",
            &[("a", "sp ce"), ("b", "sp ce2"), ("x", "\u{fc}n\u{ef}"), ("f", "f \u{e9}"), ("g", "f")],
        ),
    ]
}

fn universe_dirs() -> Vec<APath> {
    [
        vec!["a"],
        vec!["b"],
        vec!["a", "a"],
        vec!["a", "b"],
        vec!["b", "a"],
        vec!["b", "b"],
        vec!["a", "a", "a"],
    ]
    .iter()
    .map(|v| v.iter().map(|s| s.to_string()).collect())
    .collect()
}
fn universe_files() -> Vec<APath> {
    let mut v: Vec<APath> = universe_dirs()
        .into_iter()
        .map(|mut d| {
            d.push("f".into());
            d
        })
        .collect();
    v.push(vec!["x".into(), "f".into()]);
    v.push(vec!["a".into(), "g".into()]);
    v
}

fn make_fixture(root: &Path, s: &Scheme) -> PathBuf {
    let d = root.join(&s.name);
    for f in universe_files() {
        let p = d.join(s.conc(&f));
        std::fs::create_dir_all(p.parent().unwrap()).unwrap();
        std::fs::write(&p, b"x").unwrap();
    }
    d
}

#[derive(Clone, Debug)]
struct ATarget {
    path: APath,
    uses: Vec<APath>,
    ignores: Vec<APath>,
}

fn apath(v: &Value) -> APath {
    v.as_array()
        .unwrap()
        .iter()
        .map(|x| x.as_str().unwrap().to_string())
        .collect()
}

fn parse_case(v: &Value) -> Vec<ATarget> {
    let mut m: BTreeMap<APath, ATarget> = BTreeMap::new();
    for t in v["tg"].as_array().unwrap() {
        let p = apath(t);
        m.insert(
            p.clone(),
            ATarget {
                path: p,
                uses: vec![],
                ignores: vec![],
            },
        );
    }
    for e in v["us"].as_array().unwrap() {
        let t = apath(&e[0]);
        m.get_mut(&t).unwrap().uses.push(apath(&e[1]));
    }
    for e in v["ig"].as_array().unwrap() {
        let t = apath(&e[0]);
        m.get_mut(&t).unwrap().ignores.push(apath(&e[1]));
    }
    for t in m.values_mut() {
        t.uses.sort();
        t.ignores.sort();
    }
    m.into_values().collect()
}

fn canon_cfg(ts: &[ATarget]) -> Value {
    let mut ts: Vec<&ATarget> = ts.iter().collect();
    ts.sort_by(|a, b| a.path.cmp(&b.path));
    json!({"targets": ts.iter().map(|t| json!({"path": t.path, "uses": t.uses, "ignores": t.ignores})).collect::<Vec<_>>()})
}

/// How a target's own path is written in the configuration of a variant: with a trailing separator for every other
/// target of the variants that spell directories that way.
fn declared_path(t: &ATarget, s: &Scheme, rev_lists: bool, slash_dirs: bool, fixture: &Path) -> String {
    let tp = s.conc(&t.path);
    let own_slash = slash_dirs && rev_lists && (t.path.len() + t.path[0].len()) % 2 == 0 && fixture.join(&tp).is_dir();
    if own_slash {
        format!("{}/", tp)
    } else {
        tp
    }
}

fn concrete_cfg(ts: &[&ATarget], s: &Scheme, rev_lists: bool, omit_empty: bool, slash_dirs: bool, fixture: &Path) -> String {
    let mut out = vec![];
    // an entry that names a directory may be written with a trailing separator: same path, other spelling
    let spell = |p: &APath| -> String {
        let c = s.conc(p);
        if slash_dirs && fixture.join(&c).is_dir() {
            format!("{}/", c)
        } else {
            c
        }
    };
    for t in ts {
        let mut o = serde_json::Map::new();
        // a target's own path may be written with a trailing separator too (every other target in that variant)
        o.insert("path".into(), json!(declared_path(t, s, rev_lists, slash_dirs, fixture)));
        let mut uses: Vec<String> = t.uses.iter().map(&spell).collect();
        let mut ign: Vec<String> = t.ignores.iter().map(&spell).collect();
        if rev_lists {
            uses.reverse();
            ign.reverse();
        }
        if !(omit_empty && uses.is_empty()) {
            o.insert("uses".into(), json!(uses));
        }
        if !(omit_empty && ign.is_empty()) {
            o.insert("ignores".into(), json!(ign));
        }
        out.push(Value::Object(o));
    }
    json!({"targets": out}).to_string()
}

fn permutations<T: Clone>(v: &[T], limit: usize, rng: &mut StdRng) -> Vec<Vec<T>> {
    let n = v.len();
    if n <= 3 {
        let mut res = vec![];
        let mut idx: Vec<usize> = (0..n).collect();
        permute(&mut idx, 0, &mut |p| res.push(p.iter().map(|&i| v[i].clone()).collect()));
        res
    } else {
        let mut res = vec![v.to_vec(), v.iter().rev().cloned().collect()];
        while res.len() < limit {
            let mut w = v.to_vec();
            w.shuffle(rng);
            res.push(w);
        }
        res
    }
}
fn permute(idx: &mut Vec<usize>, k: usize, f: &mut dyn FnMut(&Vec<usize>)) {
    if k == idx.len() {
        f(idx);
        return;
    }
    for i in k..idx.len() {
        idx.swap(k, i);
        permute(idx, k + 1, f);
        idx.swap(k, i);
    }
}

/// A panic in the code under test is data, not a harness failure.
fn guard<T>(f: impl FnOnce() -> Result<T, Value>) -> Result<T, Value> {
    match std::panic::catch_unwind(std::panic::AssertUnwindSafe(f)) {
        Ok(r) => r,
        Err(_) => Err(json!({"type": "panic", "message": "the code under test panicked"})),
    }
}

fn strictly_sorted(v: &[String]) -> bool {
    v.windows(2).all(|w| w[0].as_bytes() < w[1].as_bytes())
}

fn str_list(v: &Value) -> Vec<String> {
    v.as_array()
        .map(|a| {
            a.iter()
                .map(|x| x.as_str().unwrap_or("<non-string>").to_string())
                .collect()
        })
        .unwrap_or_default()
}

fn err_kind(e: &Value) -> String {
    e.get("type")
        .and_then(|t| t.as_str())
        .unwrap_or("other")
        .to_string()
}

fn abs_sorted_set(s: &Scheme, v: &[String]) -> Value {
    let set: BTreeSet<String> = v.iter().map(|x| s.abs(x).to_string()).collect();
    Value::Array(
        set.into_iter()
            .map(|x| serde_json::from_str(&x).unwrap())
            .collect(),
    )
}

struct Sink {
    analyze: HashMap<String, usize>,
    edges: HashMap<String, usize>,
    groups: HashMap<String, usize>,
    evals: usize,
}
impl Sink {
    fn new() -> Self {
        Sink {
            analyze: HashMap::new(),
            edges: HashMap::new(),
            groups: HashMap::new(),
            evals: 0,
        }
    }
}

struct Want {
    analyze: bool,
    edges: bool,
    groups: bool,
}

/// Everything recorded for one abstract configuration under one scheme / declaration order.
#[allow(clippy::too_many_arguments)]
fn drive_variant(
    ts: &[ATarget],
    order: &[&ATarget],
    s: &Scheme,
    fixture: &Path,
    files: &[APath],
    rev_lists: bool,
    omit_empty: bool,
    want: &Want,
    sink: &mut Sink,
    rng: &mut StdRng,
    variant: &str,
) {
    // the spelling of directory entries varies with the variant (third flag folded into omit_empty / rev_lists parity)
    let slash_dirs = rev_lists != omit_empty;
    let cfg_json = concrete_cfg(order, s, rev_lists, omit_empty, slash_dirs, fixture);
    let canon = canon_cfg(ts);
    let conc_files: Vec<String> = files.iter().map(|p| s.conc(p)).collect();

    if want.analyze {
        sink.evals += 1;
        let main = guard(|| verif::analyze(&cfg_json, fixture, Some(&conc_files), true, true, false));
        let out = match main {
            Err(e) => json!({"ok": false, "err": err_kind(&e), "msg": e}),
            Ok(o) => {
                let tv = str_list(&o["targets"]);
                let per_change: Vec<Value> = o["changes"]
                    .as_array()
                    .map(|a| {
                        let mut v: Vec<Value> = a
                            .iter()
                            .map(|c| {
                                let mut tl: Vec<Value> = c["targets"]
                                    .as_array()
                                    .map(|ts| {
                                        ts.iter()
                                            .map(|t| json!({"path": s.abs(t["path"].as_str().unwrap_or("")), "reason": t["reason"]}))
                                            .collect()
                                    })
                                    .unwrap_or_default();
                                tl.sort_by_key(|x| x.to_string());
                                json!({"path": s.abs(c["path"].as_str().unwrap_or("")), "targets": tl})
                            })
                            .collect();
                        v.sort_by_key(|x| x.to_string());
                        v
                    })
                    .unwrap_or_default();
                // other presentations of the same change set: order, duplication, batch sizes
                let mut pres: BTreeSet<String> = BTreeSet::new();
                let mut variants: Vec<Vec<String>> = vec![];
                let mut r = conc_files.clone();
                r.reverse();
                variants.push(r);
                let mut d: Vec<String> = conc_files.iter().chain(conc_files.iter()).cloned().collect();
                d.shuffle(rng);
                variants.push(d);
                let mut big: Vec<String> = vec![];
                for _ in 0..8 {
                    big.extend(conc_files.iter().cloned());
                }
                big.shuffle(rng);
                variants.push(big);
                for v in variants {
                    sink.evals += 1;
                    match guard(|| verif::analyze(&cfg_json, fixture, Some(&v), false, false, false)) {
                        Ok(o2) => {
                            pres.insert(abs_sorted_set(s, &str_list(&o2["targets"])).to_string());
                        }
                        Err(e) => {
                            pres.insert(json!([["<error>", err_kind(&e)]]).to_string());
                        }
                    }
                }
                let mut singles = vec![];
                for (ap, cp) in files.iter().zip(conc_files.iter()) {
                    sink.evals += 1;
                    match guard(|| verif::analyze(&cfg_json, fixture, Some(&[cp.clone()]), false, false, false)) {
                        Ok(o2) => {
                            let tl = str_list(&o2["targets"]);
                            singles.push(json!({"path": ap, "targets": tl.iter().map(|x| s.abs(x)).collect::<Vec<_>>(), "strictly_sorted": strictly_sorted(&tl)}));
                        }
                        Err(e) => {
                            singles.push(json!({"path": ap, "targets": [["<error>", err_kind(&e)]], "strictly_sorted": false}));
                        }
                    }
                }
                // two-change sets in a given order (state carried from one change to the next shows here, where
                // the full set would mask it): the two files that share a directory, both orders, plus two random pairs
                let mut pairs = vec![];
                let nf = files.len();
                let mut pair_idx: Vec<(usize, usize)> = if nf >= 2 { vec![(0, nf - 1), (nf - 1, 0)] } else { vec![] };
                for _ in 0..(if nf >= 2 { 2 } else { 0 }) {
                    let i = rng.gen_range(0..nf);
                    let j = (i + rng.gen_range(1..nf)) % nf;
                    pair_idx.push((i, j));
                }
                for (i, j) in pair_idx {
                    sink.evals += 1;
                    let cs = vec![conc_files[i].clone(), conc_files[j].clone()];
                    match guard(|| verif::analyze(&cfg_json, fixture, Some(&cs), false, false, false)) {
                        Ok(o2) => {
                            let tl = str_list(&o2["targets"]);
                            pairs.push(json!({"paths": [files[i], files[j]], "targets": tl.iter().map(|x| s.abs(x)).collect::<Vec<_>>(), "strictly_sorted": strictly_sorted(&tl)}));
                        }
                        Err(e) => {
                            pairs.push(json!({"paths": [files[i], files[j]], "targets": [["<error>", err_kind(&e)]], "strictly_sorted": false}));
                        }
                    }
                }
                // the abstract order of a sorted concrete list depends on the naming scheme; the
                // byte-order fact is recorded as a boolean and the list is canonicalised
                let mut abs_t: Vec<Value> = tv.iter().map(|x| s.abs(x)).collect();
                abs_t.sort_by_key(|x| x.to_string());
                json!({"ok": true, "targets": abs_t,
                       "strictly_sorted": strictly_sorted(&tv), "per_change": per_change,
                       "singles": singles, "pairs": pairs,
                       "presentations": pres.into_iter().map(|x| serde_json::from_str::<Value>(&x).unwrap()).collect::<Vec<_>>()})
            }
        };
        let rec = json!({"ev": "analyze", "config": canon, "changes": files, "out": out});
        let key = rec.to_string();
        let e = sink.analyze.entry(key).or_insert(0);
        *e += 1;
        let _ = variant;
    }

    if want.edges {
        sink.evals += 1;
        let out = match guard(|| verif::index_edges(&cfg_json, fixture)) {
            Err(e) => json!({"ok": false, "err": err_kind(&e), "msg": e}),
            Ok(o) => {
                let nodes = str_list(&o["nodes"]);
                let mut edges = vec![];
                for (i, deps) in o["edges"].as_array().unwrap().iter().enumerate() {
                    for j in deps.as_array().unwrap() {
                        let j = j.as_u64().unwrap() as usize;
                        edges.push(json!([s.abs(&nodes[i]), s.abs(&nodes[j])]));
                    }
                }
                edges.sort_by_key(|x| x.to_string());
                let mut an: Vec<Value> = nodes.iter().map(|x| s.abs(x)).collect();
                an.sort_by_key(|x| x.to_string());
                json!({"ok": true, "nodes": an, "edges": edges})
            }
        };
        let rec = json!({"ev": "edges", "config": canon, "out": out, "via": "hook"});
        *sink.edges.entry(rec.to_string()).or_insert(0) += 1;
    }

    if want.groups {
        let all_roots: Vec<APath> = {
            let mut v: Vec<APath> = ts.iter().map(|t| t.path.clone()).collect();
            v.sort();
            v
        };
        let groups_out = |r: Result<Value, Value>| -> Value {
            match r {
                Err(e) => json!({"ok": false, "err": err_kind(&e), "groups": [], "msg": e["message"]}),
                Ok(g) => {
                    let gs: Vec<Value> = g
                        .as_array()
                        .unwrap()
                        .iter()
                        .map(|grp| {
                            let mut v: Vec<Value> =
                                str_list(grp).iter().map(|x| s.abs(x)).collect();
                            v.sort_by_key(|x| x.to_string());
                            Value::Array(v)
                        })
                        .collect();
                    json!({"ok": true, "err": "", "groups": gs})
                }
            }
        };
        // every non-empty subset of roots for small configurations, else a sample
        let n = order.len();
        let mut subsets: Vec<Vec<usize>> = vec![];
        if n <= 3 {
            for mask in 1..(1u32 << n) {
                subsets.push((0..n).filter(|i| mask & (1 << i) != 0).collect());
            }
        } else {
            subsets.push((0..n).collect());
            for i in 0..n.min(6) {
                subsets.push(vec![rng.gen_range(0..n), i]);
                subsets.push(vec![i]);
            }
        }
        for sub in subsets {
            sink.evals += 1;
            let vis: Vec<String> = sub.iter().map(|&i| declared_path(order[i], s, rev_lists, slash_dirs, fixture)).collect();
            let mut roots: Vec<APath> = sub.iter().map(|&i| order[i].path.clone()).collect();
            roots.sort();
            roots.dedup();
            let out = groups_out(guard(|| verif::index_groups(&cfg_json, fixture, &vis)));
            let rec = json!({"ev": "groups", "config": canon, "roots": roots, "pruned": false, "changed": [], "out": out, "via": "index"});
            *sink.groups.entry(rec.to_string()).or_insert(0) += 1;
        }
        // analyze without checkpoint: all targets
        sink.evals += 1;
        let out = match guard(|| verif::analyze(&cfg_json, fixture, None, false, false, true)) {
            Ok(o) => groups_out(Ok(o["target_groups"].clone())),
            Err(e) => groups_out(Err(e)),
        };
        let rec = json!({"ev": "groups", "config": canon, "roots": all_roots, "pruned": false, "changed": [], "out": out, "via": "analyze_all"});
        *sink.groups.entry(rec.to_string()).or_insert(0) += 1;
        // analyze with changes: groups pruned to the changed targets it reports itself
        let conc_files: Vec<String> = files.iter().map(|p| s.conc(p)).collect();
        let mut change_sets: Vec<Vec<String>> = vec![conc_files.clone(), vec![]];
        for f in &conc_files {
            change_sets.push(vec![f.clone()]);
        }
        for _ in 0..(if conc_files.len() >= 2 { 3 } else { 0 }) {
            let k = rng.gen_range(2..=3.min(conc_files.len()));
            let mut c = conc_files.clone();
            c.shuffle(rng);
            c.truncate(k);
            change_sets.push(c);
        }
        for cs in change_sets {
            sink.evals += 1;
            let (out, changed) = match guard(|| verif::analyze(&cfg_json, fixture, Some(&cs), false, false, true)) {
                Ok(o) => {
                    let ch = abs_sorted_set(s, &str_list(&o["targets"]));
                    (groups_out(Ok(o["target_groups"].clone())), ch)
                }
                Err(e) => (groups_out(Err(e)), json!([])),
            };
            let rec = json!({"ev": "groups", "config": canon, "roots": all_roots, "pruned": true, "changed": changed, "out": out, "via": "analyze_changed"});
            *sink.groups.entry(rec.to_string()).or_insert(0) += 1;
        }
    }
}

fn arg(args: &[String], name: &str) -> Option<String> {
    args.iter()
        .position(|a| a == name)
        .and_then(|i| args.get(i + 1).cloned())
}

fn write_counted(path: &Path, m: &HashMap<String, usize>) {
    let mut f = std::io::BufWriter::new(std::fs::File::create(path).unwrap());
    let mut keys: Vec<&String> = m.keys().collect();
    keys.sort();
    for k in keys {
        // append the variant count without re-parsing
        let n = m[k];
        let body = &k[..k.len() - 1];
        writeln!(f, "{},\"n\":{}}}", body, n).unwrap();
    }
}

fn cmd_cfgcases(args: &[String]) {
    let cases_path = arg(args, "--cases").expect("--cases");
    let out_dir = PathBuf::from(arg(args, "--out").expect("--out"));
    let fix_root = PathBuf::from(arg(args, "--fixtures").expect("--fixtures"));
    let kinds = arg(args, "--kinds").unwrap_or_else(|| "analyze,edges,groups".into());
    let nschemes: usize = arg(args, "--schemes").map(|s| s.parse().unwrap()).unwrap_or(5);
    let threads: usize = arg(args, "--threads").map(|s| s.parse().unwrap()).unwrap_or(8);
    let seed: u64 = arg(args, "--seed").map(|s| s.parse().unwrap()).unwrap_or(1);
    let rotate: usize = arg(args, "--rotate").map(|s| s.parse().unwrap()).unwrap_or(0);
    let want = Want {
        analyze: kinds.contains("analyze"),
        edges: kinds.contains("edges"),
        groups: kinds.contains("groups"),
    };
    let schemes: Vec<Scheme> = schemes().into_iter().take(nschemes).collect();
    let fixtures: Vec<PathBuf> = schemes.iter().map(|s| make_fixture(&fix_root, s)).collect();
    let cases: Vec<Value> = std::io::BufReader::new(std::fs::File::open(cases_path).unwrap())
        .lines()
        .map(|l| serde_json::from_str(&l.unwrap()).unwrap())
        .collect();
    let files = universe_files();
    let chunk = (cases.len() + threads * 4 - 1) / (threads.max(1) * 4);
    // run the cases on rayon's own worker threads: monorail's analysis uses the global rayon
    // pool, and calling it from foreign threads costs a cross-thread hand-off per call
    rayon::ThreadPoolBuilder::new()
        .num_threads(threads.max(1))
        .build_global()
        .unwrap();
    use rayon::prelude::*;
    let sinks: Vec<Sink> = cases
        .par_chunks(chunk.max(1))
        .enumerate()
        .map(|(ti, part)| {
            let mut sink = Sink::new();
            let mut rng = StdRng::seed_from_u64(seed.wrapping_mul(1000).wrapping_add(ti as u64));
            for (ci, c) in part.iter().enumerate() {
                let ts = parse_case(c);
                let refs: Vec<&ATarget> = ts.iter().collect();
                let perms = permutations(&refs, 6, &mut rng);
                for (si, s) in schemes.iter().enumerate() {
                    // with --rotate k only k of the schemes are used per case, rotating
                    if rotate > 0 && (ci + ti + si) % schemes.len() >= rotate {
                        continue;
                    }
                    for (pi, order) in perms.iter().enumerate() {
                        // list order / optional-field presentation vary with the permutation index
                        let rev = pi % 2 == 1;
                        let omit = (pi + si) % 2 == 0;
                        drive_variant(
                            &ts, order, s, &fixtures[si], &files, rev, omit, &want, &mut sink,
                            &mut rng, &format!("{}#{}", s.name, pi),
                        );
                    }
                }
            }
            sink
        })
        .collect();
    let mut total = Sink::new();
    for s in sinks {
        total.evals += s.evals;
        for (k, v) in s.analyze {
            *total.analyze.entry(k).or_insert(0) += v;
        }
        for (k, v) in s.edges {
            *total.edges.entry(k).or_insert(0) += v;
        }
        for (k, v) in s.groups {
            *total.groups.entry(k).or_insert(0) += v;
        }
    }
    std::fs::create_dir_all(&out_dir).unwrap();
    if want.analyze {
        write_counted(&out_dir.join("analyze.ndjson"), &total.analyze);
    }
    if want.edges {
        write_counted(&out_dir.join("edges.ndjson"), &total.edges);
    }
    if want.groups {
        write_counted(&out_dir.join("groups.ndjson"), &total.groups);
    }
    println!(
        "{}",
        json!({"cases": cases.len(), "evaluations": total.evals, "analyze_records": total.analyze.len(),
               "edges_records": total.edges.len(), "groups_records": total.groups.len(),
               "schemes": schemes.iter().map(|s| s.name.clone()).collect::<Vec<_>>()})
    );
}

// ---------------------------------------------------------------------------------------
// bare Dag cases from MCDag: {"adj":[[..]..],"roots":[..]}
fn cmd_dagcases(args: &[String]) {
    let cases_path = arg(args, "--cases").expect("--cases");
    let out = PathBuf::from(arg(args, "--out").expect("--out"));
    let seed: u64 = arg(args, "--seed").map(|s| s.parse().unwrap()).unwrap_or(1);
    let mut rng = StdRng::seed_from_u64(seed);
    let mut f = std::io::BufWriter::new(std::fs::File::create(&out).unwrap());
    let mut evals = 0usize;
    let mut n = 0usize;
    for l in std::io::BufReader::new(std::fs::File::open(cases_path).unwrap()).lines() {
        let c: Value = serde_json::from_str(&l.unwrap()).unwrap();
        let adj: Vec<Vec<usize>> = c["adj"]
            .as_array()
            .unwrap()
            .iter()
            .map(|d| d.as_array().unwrap().iter().map(|x| x.as_u64().unwrap() as usize).collect())
            .collect();
        let roots: Vec<usize> = c["roots"].as_array().unwrap().iter().map(|x| x.as_u64().unwrap() as usize).collect();
        // the order in which roots are made visible and in which dependencies are listed is not
        // part of the abstract case: try several
        let mut outs: BTreeSet<String> = BTreeSet::new();
        let mut orders: Vec<(Vec<usize>, bool)> = vec![(roots.clone(), false), (roots.iter().rev().cloned().collect(), true)];
        let mut sh = roots.clone();
        sh.shuffle(&mut rng);
        orders.push((sh, false));
        for (ro, rev_adj) in orders {
            let a: Vec<Vec<usize>> = adj
                .iter()
                .map(|d| {
                    let mut d = d.clone();
                    if rev_adj {
                        d.reverse();
                    }
                    d
                })
                .collect();
            evals += 1;
            let o = match guard(|| verif::dag_groups(a.len(), &a, &ro)) {
                Ok(g) => {
                    let gs: Vec<Vec<usize>> = g
                        .into_iter()
                        .map(|mut x| {
                            x.sort();
                            x
                        })
                        .collect();
                    json!({"ok": true, "err": "", "groups": gs})
                }
                Err(e) => json!({"ok": false, "err": err_kind(&e), "groups": []}),
            };
            outs.insert(o.to_string());
        }
        for o in outs {
            let ov: Value = serde_json::from_str(&o).unwrap();
            writeln!(f, "{}", json!({"ev": "dag", "adj": adj, "roots": roots, "out": ov})).unwrap();
            n += 1;
        }
    }
    println!("{}", json!({"evaluations": evals, "records": n}));
}

// ---------------------------------------------------------------------------------------
// random larger graphs for the bare Dag
fn cmd_dagrandom(args: &[String]) {
    let out = PathBuf::from(arg(args, "--out").expect("--out"));
    let seed: u64 = arg(args, "--seed").map(|s| s.parse().unwrap()).unwrap_or(1);
    let count: usize = arg(args, "--count").map(|s| s.parse().unwrap()).unwrap_or(200);
    let mut rng = StdRng::seed_from_u64(seed);
    let mut f = std::io::BufWriter::new(std::fs::File::create(&out).unwrap());
    let mut n = 0;
    for k in 0..count {
        let nn = rng.gen_range(5..=12);
        // random DAG along a random permutation, with diamonds and redundant transitive edges
        let mut perm: Vec<usize> = (0..nn).collect();
        perm.shuffle(&mut rng);
        let mut adj: Vec<Vec<usize>> = vec![vec![]; nn];
        let dens = rng.gen_range(0.15..0.6);
        for i in 0..nn {
            for j in (i + 1)..nn {
                if rng.gen_bool(dens) {
                    adj[perm[j]].push(perm[i]);
                }
            }
        }
        // a third of the cases get one planted back edge (cycle)
        if k % 3 == 0 {
            let i = rng.gen_range(0..nn - 1);
            let j = rng.gen_range(i + 1..nn);
            adj[perm[i]].push(perm[j]);
            if !adj[perm[j]].contains(&perm[i]) && rng.gen_bool(0.5) {
                adj[perm[j]].push(perm[i]);
            }
        }
        for d in adj.iter_mut() {
            d.sort();
            d.dedup();
            d.shuffle(&mut rng);
        }
        let nroots = rng.gen_range(1..=nn.min(4));
        let mut roots: Vec<usize> = (0..nn).collect();
        roots.shuffle(&mut rng);
        roots.truncate(nroots);
        let o = match guard(|| verif::dag_groups(nn, &adj, &roots)) {
            Ok(g) => json!({"ok": true, "err": "", "groups": g}),
            Err(e) => json!({"ok": false, "err": err_kind(&e), "groups": []}),
        };
        let mut rs = roots.clone();
        rs.sort();
        writeln!(f, "{}", json!({"ev": "dag", "adj": adj, "roots": rs, "out": o})).unwrap();
        n += 1;
    }
    println!("{}", json!({"evaluations": n, "records": n}));
}

// ---------------------------------------------------------------------------------------
// random large configurations over a generated directory tree
fn cmd_cfgrandom(args: &[String]) {
    let out_dir = PathBuf::from(arg(args, "--out").expect("--out"));
    let fix_root = PathBuf::from(arg(args, "--fixtures").expect("--fixtures"));
    let kinds = arg(args, "--kinds").unwrap_or_else(|| "analyze,edges,groups".into());
    let seed: u64 = arg(args, "--seed").map(|s| s.parse().unwrap()).unwrap_or(1);
    let count: usize = arg(args, "--count").map(|s| s.parse().unwrap()).unwrap_or(50);
    let max_targets: usize = arg(args, "--max-targets").map(|s| s.parse().unwrap()).unwrap_or(24);
    let acyclic_bias: f64 = arg(args, "--acyclic-bias").map(|s| s.parse().unwrap()).unwrap_or(0.7);
    let want = Want {
        analyze: kinds.contains("analyze"),
        edges: kinds.contains("edges"),
        groups: kinds.contains("groups"),
    };
    let mut rng = StdRng::seed_from_u64(seed);
    let names = [
        "app", "app2", "app-web", "ap", "a", "ab", "lib", "lib2", "core", "core.x", "sp ce",
        "\u{fc}n\u{ef}", "x", "xy", "srv", "srv_b",
        // names that are another name written twice (a / aa, ab / abab, lib / liblib)
        "aa", "abab", "liblib",
    ];
    let id = Scheme::identity();
    let mut sink = Sink::new();
    let sizes = [0usize, 1, 7, 49, 50, 51, 99, 100, 101, 240, 600];
    for k in 0..count {
        // directory universe: random tree, depth <= 5
        let mut dirs: Vec<APath> = vec![];
        let top = rng.gen_range(3..=6);
        let mut pool: Vec<&str> = names.to_vec();
        pool.shuffle(&mut rng);
        for n in pool.iter().take(top) {
            dirs.push(vec![n.to_string()]);
        }
        let extra = rng.gen_range(4..=28);
        for _ in 0..extra {
            let parent = dirs[rng.gen_range(0..dirs.len())].clone();
            if parent.len() >= 5 {
                continue;
            }
            let mut c = parent.clone();
            c.push(names[rng.gen_range(0..names.len())].to_string());
            if !dirs.contains(&c) {
                dirs.push(c);
            }
        }
        // family "fan" (every fifth case): many sibling targets that all name the same `uses` directory and (most of
        // them) the same `ignores` file inside it; family "many" (every seventh): 51..130 targets, so that whatever is
        // done per batch of targets meets a last, partial batch
        let fan = k % 5 == 3;
        let many = k % 7 == 5;
        // family "chain" (every sixth case): X uses M, M uses a sub-path of Y; a change elsewhere in Y and one in X leave M
        // unchanged between two changed targets. family "ghost" (every eighth): uses / ignores entries naming paths that
        // do not exist in the work tree (deleted files, build output not yet produced), with changes under them
        let chain = k % 6 == 2 && !many;
        let ghost = k % 8 == 1 && !many;
        // family "selfuse" (every ninth): X lists a path inside its own directory (redundant, legal, no edge) and Y lists
        // the byte-identical string, which IS Y's dependency on X; in every second such case X also reaches Y, so that
        // the Y -> X edge closes a cycle; X is declared before Y or after it
        let selfuse = k % 9 == 4 && !many;
        if selfuse {
            for d in ["sux", "suy"] {
                dirs.push(vec![d.to_string()]);
            }
            dirs.push(vec!["sux".to_string(), "gen".to_string()]);
            dirs.push(vec!["suy".to_string(), "api".to_string()]);
        }
        if chain {
            for d in ["chy", "chm", "chx"] {
                dirs.push(vec![d.to_string()]);
            }
            dirs.push(vec!["chy".to_string(), "api".to_string()]);
        }
        let nfan = if fan { rng.gen_range(6..=14) } else { 0 };
        let nmany = if many { rng.gen_range(51..=130) } else { 0 };
        for i in 0..nfan {
            dirs.push(vec![format!("fan{:02}", i)]);
        }
        if fan {
            dirs.push(vec!["fanshared".to_string()]);
        }
        for i in 0..nmany {
            dirs.push(vec![format!("m{:03}", i)]);
        }
        let mut files: Vec<APath> = vec![];
        for d in &dirs {
            for fname in ["f.txt", "f", "a"] {
                if fname == "f.txt" || rng.gen_bool(0.3) {
                    let mut p = d.clone();
                    p.push(fname.to_string());
                    if !dirs.contains(&p) {
                        files.push(p);
                    }
                }
            }
        }
        let fixture = fix_root.join(format!("r{}", k));
        for p in &files {
            let fp = fixture.join(id.conc(p));
            std::fs::create_dir_all(fp.parent().unwrap()).unwrap();
            std::fs::write(&fp, b"x").unwrap();
        }
        // targets: a random subset of directories (some nested), occasionally a file
        let nt = rng.gen_range(2..=max_targets.min(dirs.len() - nfan - nmany - (if fan { 1 } else { 0 })).max(2));
        let mut tdirs: Vec<APath> = dirs.iter().filter(|d| !(d[0].starts_with("fan") || d[0].starts_with("ch") && d[0].len() == 3 || d[0].starts_with("su") && d[0].len() == 3 || (d[0].starts_with('m') && d[0].len() == 4 && d[0][1..].chars().all(|c| c.is_ascii_digit())))).cloned().collect();
        tdirs.shuffle(&mut rng);
        tdirs.truncate(nt.min(tdirs.len()));
        if rng.gen_bool(0.2) {
            let fp = files[rng.gen_range(0..files.len())].clone();
            if !tdirs.iter().any(|d| d == &fp) {
                tdirs.push(fp);
            }
        }
        let acyclic = rng.gen_bool(acyclic_bias);
        let mut ts: Vec<ATarget> = tdirs
            .iter()
            .map(|p| ATarget { path: p.clone(), uses: vec![], ignores: vec![] })
            .collect();
        let pick_path = |rng: &mut StdRng, dirs: &Vec<APath>, files: &Vec<APath>, tdirs: &Vec<APath>| -> APath {
            match rng.gen_range(0..6) {
                0 => tdirs[rng.gen_range(0..tdirs.len())].clone(),
                1 => dirs[rng.gen_range(0..dirs.len())].clone(),
                2 | 3 => files[rng.gen_range(0..files.len())].clone(),
                4 => {
                    // a path that does not exist, sharing a string prefix with an existing one
                    let mut p = dirs[rng.gen_range(0..dirs.len())].clone();
                    let l = p.len() - 1;
                    p[l] = format!("{}2", p[l]);
                    p
                }
                _ => vec!["outside".to_string(), names[rng.gen_range(0..names.len())].to_string()],
            }
        };
        // order targets so that in the acyclic case uses only point "down" a random order
        let mut rank: Vec<usize> = (0..ts.len()).collect();
        rank.shuffle(&mut rng);
        for i in 0..ts.len() {
            let nu = if rng.gen_bool(0.6) { rng.gen_range(0..=3) } else { 0 };
            for _ in 0..nu {
                let u = pick_path(&mut rng, &dirs, &files, &tdirs);
                if acyclic {
                    // keep only uses that cannot close a cycle: every target the entry falls in must
                    // rank lower than i, and must not be nested inside target i (nesting edges point up)
                    let ok = ts.iter().enumerate().all(|(j, t)| {
                        let inside = u.len() >= t.path.len() && u[..t.path.len()] == t.path[..];
                        !inside || j == i || (rank[j] < rank[i])
                    });
                    // nesting edges: i depends on enclosing targets; forbid uses into anything that
                    // (transitively) might depend on i by only allowing lower rank AND not nested in i
                    let nested_in_i = ts.iter().any(|t| {
                        let inside = u.len() >= t.path.len() && u[..t.path.len()] == t.path[..];
                        inside && t.path.len() > ts[i].path.len() && t.path[..ts[i].path.len()] == ts[i].path[..]
                    });
                    if !ok || nested_in_i {
                        continue;
                    }
                }
                if !ts[i].uses.contains(&u) {
                    ts[i].uses.push(u);
                }
            }
            let ni = if rng.gen_bool(0.4) { rng.gen_range(1..=2) } else { 0 };
            for _ in 0..ni {
                let u = pick_path(&mut rng, &dirs, &files, &tdirs);
                if !ts[i].ignores.contains(&u) {
                    ts[i].ignores.push(u);
                }
            }
            ts[i].uses.sort();
            ts[i].ignores.sort();
        }
        // change paths
        let size = sizes[k % sizes.len()];
        let mut changes: Vec<APath> = vec![];
        let mut guard = 0;
        while changes.len() < size && guard < size * 20 + 100 {
            guard += 1;
            let p = match rng.gen_range(0..10) {
                0..=6 => files[rng.gen_range(0..files.len())].clone(),
                7 => {
                    let mut p = dirs[rng.gen_range(0..dirs.len())].clone();
                    p.push(format!("new{}.rs", rng.gen_range(0..400)));
                    p
                }
                8 => {
                    let mut p = dirs[rng.gen_range(0..dirs.len())].clone();
                    let l = p.len() - 1;
                    p[l] = format!("{}{}", p[l], ["2", "-web", ".x", "x"][rng.gen_range(0..4)]);
                    p.push(format!("g{}", rng.gen_range(0..50)));
                    p
                }
                _ => vec!["outside".to_string(), format!("o{}", rng.gen_range(0..50))],
            };
            if !changes.contains(&p) {
                changes.push(p);
            }
        }
        let mut want_k = Want { analyze: want.analyze, edges: want.edges, groups: want.groups };
        if fan {
            let shared = vec!["fanshared".to_string()];
            let ign = vec!["fanshared".to_string(), "f.txt".to_string()];
            for i in 0..nfan {
                ts.push(ATarget {
                    path: vec![format!("fan{:02}", i)],
                    uses: vec![shared.clone()],
                    ignores: if i % 5 == 4 { vec![] } else { vec![ign.clone()] },
                });
            }
            changes.push(ign.clone());
            if rng.gen_bool(0.5) {
                changes.push(vec!["fanshared".to_string(), "other.rs".to_string()]);
            }
        }
        if chain {
            ts.push(ATarget { path: vec!["chy".into()], uses: vec![], ignores: vec![] });
            ts.push(ATarget { path: vec!["chm".into()], uses: vec![vec!["chy".into(), "api".into()]], ignores: vec![] });
            ts.push(ATarget { path: vec!["chx".into()], uses: vec![vec!["chm".into()]], ignores: vec![] });
            // exactly two changes: one in Y outside the sub-path M uses, one in X
            changes = vec![vec!["chy".into(), "f.txt".into()], vec!["chx".into(), "f.txt".into()]];
        }
        if selfuse {
            let gen = vec!["sux".to_string(), "gen".to_string()];
            let api = vec!["suy".to_string(), "api".to_string()];
            let cyc = (k / 9) % 2 == 0;
            let x = ATarget { path: vec!["sux".into()], uses: if cyc { vec![gen.clone(), api.clone()] } else { vec![gen.clone()] }, ignores: vec![] };
            let y = ATarget { path: vec!["suy".into()], uses: vec![gen.clone()], ignores: vec![] };
            if (k / 18) % 2 == 0 {
                ts.insert(0, y);
                ts.insert(0, x);
            } else {
                ts.push(y);
                ts.push(x);
            }
            changes.push(vec!["sux".into(), "gen".into(), "f.txt".into()]);
        }
        if ghost {
            let g1 = vec!["ghostdir".to_string(), "dist".to_string()];
            let g2 = vec![ts[0].path[0].clone(), "build-output".to_string(), "gen.rs".to_string()];
            let n = ts.len();
            ts[n - 1].uses.push(g1.clone());
            ts[n - 1].uses.sort();
            ts[0].ignores.push(g2.clone());
            ts[0].ignores.sort();
            let mut c1 = g1.clone();
            c1.push("removed.bin".to_string());
            changes.push(c1);
            changes.push(g2.clone());
        }
        if many {
            // flat targets with `uses` pointing at lower-numbered ones; only small change sets, no layering oracle
            for i in 0..nmany {
                let mut uses = vec![];
                if i > 0 && rng.gen_bool(0.5) {
                    uses.push(vec![format!("m{:03}", rng.gen_range(0..i))]);
                }
                if i > 1 && rng.gen_bool(0.2) {
                    uses.push(vec![format!("m{:03}", rng.gen_range(0..i)), "f.txt".to_string()]);
                }
                uses.sort();
                uses.dedup();
                ts.push(ATarget { path: vec![format!("m{:03}", i)], uses, ignores: vec![] });
            }
            changes.truncate(6);
            changes.push(vec![format!("m{:03}", nmany - 1), "f.txt".to_string()]);
            changes.push(vec!["m000".to_string(), "f.txt".to_string()]);
            want_k.groups = false;
        }
        changes.sort();
        changes.dedup();
        let refs: Vec<&ATarget> = ts.iter().collect();
        let perms = permutations(&refs, 3, &mut rng);
        for (pi, order) in perms.iter().enumerate() {
            drive_variant(&ts, order, &id, &fixture, &changes, pi % 2 == 1, pi % 2 == 0, &want_k,
                          &mut sink, &mut rng, &format!("identity#{}", pi));
        }
    }
    std::fs::create_dir_all(&out_dir).unwrap();
    if want.analyze {
        write_counted(&out_dir.join("analyze.ndjson"), &sink.analyze);
    }
    if want.edges {
        write_counted(&out_dir.join("edges.ndjson"), &sink.edges);
    }
    if want.groups {
        write_counted(&out_dir.join("groups.ndjson"), &sink.groups);
    }
    println!(
        "{}",
        json!({"cases": count, "evaluations": sink.evals, "analyze_records": sink.analyze.len(),
               "edges_records": sink.edges.len(), "groups_records": sink.groups.len()})
    );
}

// ---------------------------------------------------------------------------------------
// log capture pipeline under virtual time.
// input: one JSON per line {"streams":[{"chunks":[[tok..]..],"gaps":[k..]}..]}; tokens "x","y" are
// concretised to two letters per stream, "n" to a newline.
fn capture_one(dir: &Path, case: &Value) -> Value {
    let streams = case["streams"].as_array().unwrap();
    let mut scripts: Vec<Vec<(u64, Vec<u8>)>> = vec![];
    let mut written: Vec<Vec<u8>> = vec![];
    for (i, s) in streams.iter().enumerate() {
        let chunks = s["chunks"].as_array().unwrap();
        let gaps: Vec<u64> = s["gaps"].as_array().unwrap().iter().map(|g| g.as_u64().unwrap()).collect();
        let mut script = vec![];
        let mut all = vec![];
        // absolute virtual time of the next write; ticks fire at 0, 500, 1000, ... after the reader starts
        let mut t: u64 = 0;
        let mut prev: u64 = 0;
        for (j, c) in chunks.iter().enumerate() {
            let k = gaps[j];
            // place the write strictly inside the tick interval that lies k ticks after the previous write
            let interval = t / 500 + k;
            let mut nt = interval * 500 + 3 + (i as u64 % 7) * 5 + (j as u64 % 9);
            if nt <= t {
                nt = t + 1;
            }
            let bytes: Vec<u8> = c
                .as_array()
                .unwrap()
                .iter()
                .map(|tk| match tk.as_str().unwrap() {
                    "n" => b'\n',
                    "x" => b'a' + ((2 * i) % 24) as u8,
                    _ => b'b' + ((2 * i) % 24) as u8,
                })
                .collect();
            all.extend_from_slice(&bytes);
            script.push((nt - prev, bytes));
            prev = nt;
            t = nt;
        }
        // ticks between the last chunk and the close: an empty final write after the delay
        let k = gaps[chunks.len()];
        if k > 0 {
            let nt = (t / 500 + k) * 500 + 3;
            script.push((nt - prev, vec![]));
        }
        scripts.push(script);
        written.push(all);
    }
    // streams come in pairs (stdout, stderr of one target): a compressor thread without any client would never
    // be told to shut down, so an odd group is padded with a silent stream
    let padded = scripts.len() % 2 == 1;
    if padded {
        scripts.push(vec![]);
    }
    let rt = tokio::runtime::Builder::new_current_thread()
        .enable_all()
        .start_paused(true)
        .build()
        .unwrap();
    let res = rt.block_on(verif::capture(dir, scripts, 2));
    match res {
        Ok(mut files) => {
            if padded {
                files.pop();
            }
            let toks = |i: usize, v: &Vec<u8>| -> Vec<String> {
                v.iter()
                    .map(|b| {
                        if *b == b'\n' {
                            "n".to_string()
                        } else if *b == b'a' + ((2 * i) % 24) as u8 {
                            "x".to_string()
                        } else if *b == b'b' + ((2 * i) % 24) as u8 {
                            "y".to_string()
                        } else {
                            format!("<foreign:{}>", b)
                        }
                    })
                    .collect()
            };
            json!({"ev": "capture", "streams": case["streams"], "ok": true,
                   "files": files.iter().enumerate().map(|(i, f)| toks(i, f)).collect::<Vec<_>>(),
                   "bytes_equal": files.iter().zip(written.iter()).map(|(a, b)| a == b).collect::<Vec<_>>()})
        }
        Err(e) => json!({"ev": "capture", "streams": case["streams"], "ok": false, "files": [], "bytes_equal": [], "err": e}),
    }
}

fn cmd_capture(args: &[String]) {
    let cases_path = arg(args, "--cases").expect("--cases");
    let out = PathBuf::from(arg(args, "--out").expect("--out"));
    let work = PathBuf::from(arg(args, "--work").expect("--work"));
    let threads: usize = arg(args, "--threads").map(|s| s.parse().unwrap()).unwrap_or(8);
    let cases: Vec<Value> = std::io::BufReader::new(std::fs::File::open(cases_path).unwrap())
        .lines()
        .map(|l| serde_json::from_str(&l.unwrap()).unwrap())
        .collect();
    let chunk = (cases.len() + threads - 1) / threads.max(1);
    let results: Vec<Vec<Value>> = std::thread::scope(|sc| {
        let mut hs = vec![];
        for (ti, part) in cases.chunks(chunk.max(1)).enumerate() {
            let work = work.clone();
            hs.push(sc.spawn(move || {
                let mut out = vec![];
                for (ci, c) in part.iter().enumerate() {
                    let d = work.join(format!("w{}-{}", ti, ci % 4));
                    let _ = std::fs::remove_dir_all(&d);
                    std::fs::create_dir_all(&d).unwrap();
                    out.push(capture_one(&d, c));
                }
                out
            }));
        }
        hs.into_iter().map(|h| h.join().unwrap()).collect()
    });
    let mut f = std::io::BufWriter::new(std::fs::File::create(&out).unwrap());
    let mut n = 0;
    for part in results {
        for r in part {
            writeln!(f, "{}", r).unwrap();
            n += 1;
        }
    }
    println!("{}", json!({"evaluations": n, "records": n}));
}

fn cmd_unzst(args: &[String]) {
    let p = args.get(2).expect("file");
    let f = std::fs::File::open(p).unwrap();
    let mut dec = zstd::stream::read::Decoder::new(f).unwrap();
    let mut out = std::io::stdout();
    std::io::copy(&mut dec, &mut out).unwrap();
}

// large acyclic graphs (hundreds of nodes, high fan-in) with a topological rank as acyclicity certificate, so that
// the judge can verify acyclicity in O(edges) instead of computing reachability
fn cmd_dagbig(args: &[String]) {
    let out = PathBuf::from(arg(args, "--out").expect("--out"));
    let seed: u64 = arg(args, "--seed").map(|s| s.parse().unwrap()).unwrap_or(1);
    let count: usize = arg(args, "--count").map(|s| s.parse().unwrap()).unwrap_or(6);
    let mut rng = StdRng::seed_from_u64(seed);
    let mut f = std::io::BufWriter::new(std::fs::File::create(&out).unwrap());
    let sizes = [256usize, 300, 700, 1500];
    for k in 0..count {
        let nn = sizes[k % sizes.len()];
        let mut perm: Vec<usize> = (0..nn).collect();
        perm.shuffle(&mut rng);
        let mut rank = vec![0usize; nn];
        for (r, &n) in perm.iter().enumerate() {
            rank[n] = r;
        }
        let hubs = rng.gen_range(1..=4);
        let mut adj: Vec<Vec<usize>> = vec![vec![]; nn];
        for j in hubs..nn {
            // most nodes depend on a few low-rank hubs (high fan-in), plus a couple of random earlier nodes
            let t = perm[j];
            for h in 0..hubs {
                if rng.gen_bool(0.8) {
                    adj[t].push(perm[h]);
                }
            }
            for _ in 0..rng.gen_range(0..3) {
                adj[t].push(perm[rng.gen_range(0..j)]);
            }
            adj[t].sort();
            adj[t].dedup();
            adj[t].shuffle(&mut rng);
        }
        let roots: Vec<usize> = (0..nn).collect();
        let mut outs: BTreeSet<String> = BTreeSet::new();
        for _rep in 0..3 {
            let o = match guard(|| verif::dag_groups(nn, &adj, &roots)) {
                Ok(g) => json!({"ok": true, "err": "", "groups": g}),
                Err(e) => json!({"ok": false, "err": err_kind(&e), "groups": []}),
            };
            outs.insert(o.to_string());
        }
        for o in outs {
            let ov: Value = serde_json::from_str(&o).unwrap();
            writeln!(f, "{}", json!({"ev": "dag_big", "adj": adj, "rank": rank, "out": ov})).unwrap();
        }
    }
    println!("{}", json!({"evaluations": count * 3, "records": count}));
}

fn main() {
    let args: Vec<String> = std::env::args().collect();
    match args.get(1).map(|s| s.as_str()) {
        Some("capture") => cmd_capture(&args),
        Some("unzst") => cmd_unzst(&args),
        Some("cfgcases") => cmd_cfgcases(&args),
        Some("cfgrandom") => cmd_cfgrandom(&args),
        Some("dagcases") => cmd_dagcases(&args),
        Some("dagrandom") => cmd_dagrandom(&args),
        Some("dagbig") => cmd_dagbig(&args),
        _ => {
            eprintln!("usage: vinproc cfgcases|cfgrandom|dagcases|dagrandom ...");
            std::process::exit(2);
        }
    }
}
