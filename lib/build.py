"""setup_cmd: build harness + hooked monorail offline, parse every spec module."""
import os, subprocess, sys
sys.path.insert(0, os.path.dirname(os.path.abspath(__file__)))
import vlib

def main():
    vlib.build(quiet=False)
    bad = 0
    for root, _, files in os.walk(vlib.SPEC):
        if os.path.basename(root) == "proofs":
            continue          # TLAPS proof modules extend TLAPS.tla, which only tlapm provides; they are checked by tlapm
        for f in sorted(files):
            if f.endswith(".tla"):
                p = subprocess.run(["java", "-DTLA-Library=%s:%s:%s" % (vlib.SPEC, vlib.SPEC + "/mc", vlib.SPEC + "/trace"),
                                    "-cp", vlib.TLA_CP, "tla2sany.SANY", os.path.join(root, f)],
                                   stdout=subprocess.PIPE, stderr=subprocess.STDOUT, text=True)
                if p.returncode != 0 or "*** Errors" in p.stdout or "Fatal" in p.stdout:
                    sys.stderr.write(p.stdout[-2000:]); bad += 1
                    print("SANY FAILED", f)
    if bad:
        sys.exit(2)
    print("setup ok")

main()
