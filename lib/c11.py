"""C11: argv, working directory and executable resolution. TLC (MCArgv) enumerates the cases, the real
binary is run on each with vhelper links recording argv/cwd/exe, TLC (RunJudge, Plan.tla) judges."""
import json, os, random, itertools, shutil
from concurrent.futures import ThreadPoolExecutor
import vlib, fixture, runlib

HOSTILE = [" two words", "", "q\"uo'te", "$HOME/*", "ünï ç", "\\back\\slash", "a=b;c|d", "tab\there", "{}[]()<>&", "#!~`"]
ARG_SAFE = ["a b", "", "q\"uote", "$X *", "ünï"]   # --args values must not start with '-'


def tok(kind, i, who):
    """Distinct per (target, file, command, position) so that leaks are visible; hostile characters appended."""
    h = HOSTILE[(sum(who.encode()) + i) % len(HOSTILE)] if kind != "arg" else ARG_SAFE[(i + len(who)) % len(ARG_SAFE)]
    if kind == "arg":
        return "%s%d%s" % (who, i, h)
    return "--%s-%d%s" % (who, i, h) if i % 2 == 0 else "%s-%d%s" % (who, i, h)


def file_content(kind, who):
    """argmap file content for a kind: returns dict cmd -> tokens, or None for an absent file."""
    if kind == "absent":
        return None
    if kind == "other_cmd":
        return {"test": [tok("t", 0, who + ":test")]}
    if kind == "one":
        return {"build": [tok("b", 0, who + ":build")]}
    if kind == "two":
        return {"build": [tok("b", 0, who + ":build"), tok("b", 1, who + ":build")], "test": [tok("t", 1, who + ":test")]}
    raise ValueError(kind)


# the specification's argmap names m1 / m2 / nofile are concretised to file stems; every third case uses stems that
# contain dots and dashes (a name is a name: `-m v1.2` means the file v1.2.json)
def concrete_map_name(m, idx):
    if idx % 3 != 2 or m == "base":
        return m
    return {"m1": "rel.eu-west", "m2": "v1.2", "nofile": "ghost.x"}[m]


def drive_case(bins, case, idx):
    cmds = ["build", "test"] if case["twocmds"] else ["build"]
    tpaths = ["svc", "svc2"]
    targets = []
    for ti, tp in enumerate(tpaths):
        t = {"path": tp}
        if case["customdirs"]:
            t["argmaps"] = {"path": tp + "/cfg/maps"}
            t["commands"] = {"path": "tools/cmd" if case.get("shareddir") else tp + "/scripts"}
        if ti == 0 and case.get("deps"):
            t["uses"] = ["svc2/src.txt"]
        if ti == 0 and case["resolve"] in ("defpath", "defpath_missing"):
            t.setdefault("commands", {})["definitions"] = {"build": {"path": "svc/tools/run-build"}}
        if ti == 0 and case["resolve"] == "def_nopath":
            t.setdefault("commands", {})["definitions"] = {"build": {}}
        targets.append(t)
    if idx % 2 == 1:
        targets.reverse()       # declaration order is not the sorted order
    fx = fixture.Fixture(bins, targets)
    try:
        files = {}     # (target, mapname) -> content dict
        kinds = {("svc", "base"): case["base1"], ("svc2", "base"): case["base2"],
                 ("svc", "m1"): case["n11"], ("svc", "m2"): case["n12"],
                 ("svc2", "m1"): case["n21"], ("svc2", "m2"): case["n22"]}
        for (tp, m), kd in kinds.items():
            content = file_content(kd, "%s/%s" % (tp, m))
            files[(tp, m)] = content
            if content is not None:
                d = os.path.join(fx.repo, tp, "cfg/maps" if case["customdirs"] else "monorail/argmap")
                os.makedirs(d, exist_ok=True)
                on_disk = dict(content)
                if idx % 4 == 2 and m == "base" and tp == "svc":
                    # a base argmap that takes long to parse next to tiny named ones (order must not depend on parse time)
                    on_disk["zz-unused-command"] = ["filler-%06d-%s" % (i, "x" * 40) for i in range(120000)]
                fpath = os.path.join(d, concrete_map_name(m, idx) + ".json")
                if idx % 5 == 3:
                    # the argmap file is a symbolic link to a file kept elsewhere (shared between targets, say): it exists
                    real = os.path.join(fx.repo, "shared-maps", "%s-%s.json" % (tp, m))
                    os.makedirs(os.path.dirname(real), exist_ok=True)
                    os.symlink(os.path.relpath(real, d) if idx % 2 else real, fpath)
                    fpath = real
                with open(fpath, "w") as f:
                    json.dump(on_disk, f)
        candidates = {}
        for tp in tpaths:
            cdir = ("tools/cmd" if case.get("shareddir") else tp + "/scripts") if case["customdirs"] else (tp + "/monorail/cmd")
            cands = []
            for c in cmds:
                # the real one plus decoys whose names share a prefix/suffix with the command name
                fx.add_cmd(tp, c, [{"op": "exit", "code": 0}], cmd_dir=cdir, ext=".sh",
                           ident={"cmd": c, "target": tp, "slot": c})
                if idx % 3 == 1 and tp == "svc2" and not case.get("shareddir"):
                    # the command file is a symbolic link to an executable kept elsewhere
                    real = os.path.join(fx.repo, "shared-tools", "%s-%s" % (tp, c))
                    os.makedirs(os.path.dirname(real), exist_ok=True)
                    link = os.path.join(fx.repo, cdir, c + ".sh")
                    os.replace(link, real)
                    os.symlink(real, link)
                cands.append({"path": runlib.P(cdir + "/" + c + ".sh"), "stem": c})
                for stem in (c + "2", c[:-1], "x" + c, c + ".d"):
                    fx.add_cmd(tp, stem, [{"op": "exit", "code": 0}], cmd_dir=cdir, ext=".sh",
                               ident={"cmd": "decoy", "target": tp, "slot": c})
                    cands.append({"path": runlib.P(cdir + "/" + stem + ".sh"), "stem": stem})
            candidates[tp] = cands
        if case["resolve"] == "defpath":
            fx.add_cmd("svc", "build#def", [{"op": "exit", "code": 0}], defpath="svc/tools/run-build",
                       ident={"cmd": "build", "target": "svc", "slot": "build"})
        fx.git_init()
        args = ["run", "-c"] + cmds
        requested = list(case["requested"])
        if requested:
            args += ["-m"] + [concrete_map_name(m, idx) for m in requested]
        if case["nobase"]:
            args.append("--no-base-argmaps")
        cli_args = []
        single = case["args"] == "two"
        if single:
            cli_args = [tok("arg", 0, "A"), tok("arg", 1, "A")]
            args += ["-t", "svc", "-a"] + cli_args
        if case.get("deps"):
            args += ["-t", "svc", "--deps"]
        fx.reset_helper()
        cwd = None
        if idx % 4 == 1:
            # invoked from another directory that happens to look like a checkout too (same relative paths, other files):
            # what is executed is determined by the configuration's location, not by where the caller stands
            cwd = os.path.join(fx.root, "elsewhere")
            for rel in ["svc/tools/run-build"] + [c["path"] if isinstance(c["path"], str) else "/".join(c["path"]) for cs in candidates.values() for c in cs]:
                dp = os.path.join(cwd, rel)
                os.makedirs(os.path.dirname(dp), exist_ok=True)
                if not os.path.lexists(dp):
                    fixture.copy_executable(fx.bins["vhelper"], dp, 0o755)
        res = fx.monorail(args, cwd=cwd)
        evs = fx.events()
        recs = []
        run_targets = ["svc"] if single else tpaths
        for tp in run_targets:
            for c in cmds:
                if case["resolve"] == "defpath_missing" and not (tp == "svc" and c == "build"):
                    continue        # the run fails at svc's build (nothing to execute): what else ran is C06's business
                mine = [e for e in evs if e["k"] == "start" and (e.get("id") or {}).get("target") == tp
                        and (e.get("id") or {}).get("slot") == c]
                base = (files[(tp, "base")] or {}).get(c, [])
                named = [[m, (files.get((tp, m)) or {}).get(c, [])] for m in ("m1", "m2") if files.get((tp, m)) is not None and c in files[(tp, m)]]
                if mine:
                    e = mine[0]
                    obs = {"started": len(mine), "argv": e["argv"][1:], "cwd": runlib.P(fx.rel(e["cwd"])),
                           "exe": runlib.P(fx.rel(e["argv"][0]))}
                else:
                    obs = {"started": 0, "argv": [], "cwd": [], "exe": []}
                hasdef = (tp == "svc" and c == "build" and case["resolve"] == "defpath")
                defmissing = (tp == "svc" and c == "build" and case["resolve"] == "defpath_missing")
                recs.append({"ev": "argv", "cmd": c, "target": runlib.P(tp), "base": base, "named": named,
                             "requested": requested, "args": cli_args if (single and tp == "svc" and c == "build") else [],
                             "nobase": case["nobase"], "hasdef": hasdef, "defpath": runlib.P("svc/tools/run-build"),
                             "candidates": candidates[tp], "observed": obs, "case": idx, "rc": res["rc"], "defmissing": defmissing})
        recs += show_records(fx, targets, case, idx)
        return recs
    finally:
        fx.cleanup()


def _stem(name):
    """std::path::Path::file_stem"""
    if name.startswith(".") and name.count(".") == 1:
        return name
    return name.rsplit(".", 1)[0] if "." in name else name


def _listing(fx, reldir):
    d = os.path.join(fx.repo, reldir)
    out = []
    if os.path.isdir(d):
        for fn in sorted(os.listdir(d)):
            if os.path.isfile(os.path.join(d, fn)):
                out.append({"path": runlib.P(reldir + "/" + fn), "stem": _stem(fn)})
    return out


def show_records(fx, targets, case, idx):
    """`target show --commands --argmaps` of the same repository: one record per (target, kind), judged against
    Plan.tla's ShownNames / ShownPathOK (beyond the listed properties: a drift note, never a violation)."""
    res = fx.monorail(["target", "show", "--commands", "--argmaps"])
    if res["rc"] != 0 or not isinstance(res["out"], dict):
        return [{"ev": "show", "kind": "error", "target": [], "defs": [], "candidates": [], "shown": [{"name": "?", "path": [], "perm": "?"}],
                 "perms": [], "case": idx}]
    recs = []
    by_path = {t["path"]: t for t in res["out"].get("targets", [])}
    for t in targets:
        tp = t["path"]
        for kind, default_dir in (("commands", tp + "/monorail/cmd"), ("argmaps", tp + "/monorail/argmap")):
            sect = t.get(kind) or {}
            reldir = sect.get("path") or default_dir
            defs = [{"name": n, "path": runlib.P(d["path"]) if d.get("path") else []}
                    for n, d in (sect.get("definitions") or {}).items()]
            cands = _listing(fx, reldir)
            shown, perms = [], {}
            for n, v in ((by_path.get(tp) or {}).get(kind) or {}).items():
                shown.append({"name": n, "path": runlib.P(v["path"]) if v.get("path") else [], "perm": v.get("permissions") or ""})
            for pth in [c["path"] for c in cands] + [d["path"] for d in defs if d["path"]]:
                try:
                    perms["/".join(pth)] = "%o" % (os.stat(os.path.join(fx.repo, *pth)).st_mode & 0o777)
                except OSError:
                    pass
            recs.append({"ev": "show", "kind": kind, "target": runlib.P(tp), "defs": defs, "candidates": cands, "shown": shown,
                         "perms": [{"path": runlib.P(k), "perm": v} for k, v in perms.items()], "case": idx})
    return recs


def covering_sample(cases, n, rng):
    """Greedy pairwise covering: prefer cases that cover factor-value pairs not seen yet."""
    keys = sorted(cases[0].keys())
    def pairs(c):
        vals = [(k, json.dumps(c[k])) for k in keys]
        return {(a, b) for a, b in itertools.combinations(vals, 2)}
    pool = list(cases)
    rng.shuffle(pool)
    pool = pool[: max(n * 12, 2000)]
    seen, chosen = set(), []
    pool_pairs = [(c, pairs(c)) for c in pool]
    while len(chosen) < n and pool_pairs:
        best_i, best_gain = 0, -1
        for i, (c, ps) in enumerate(pool_pairs[:400]):
            g = len(ps - seen)
            if g > best_gain:
                best_i, best_gain = i, g
        c, ps = pool_pairs.pop(best_i)
        seen |= ps
        chosen.append(c)
        if best_gain == 0:
            rng.shuffle(pool_pairs)
    return chosen, len(seen)


def run(pid, tier):
    chk = vlib.Check(pid, tier, "exploration")
    bins = vlib.build()
    rng = random.Random(chk.seed)
    nsh = 4
    jobs = [dict(module="mc/MCArgv", cfg_text="CONSTANTS EmitCases = TRUE\n Shard = %d\n NShards = %d\nSPECIFICATION Spec\n"
                 "INVARIANTS Emit BaseIsPrefix\nCHECK_DEADLOCK FALSE\n" % (i, nsh), workers=1, timeout=600) for i in range(nsh)]
    cases = []
    for r in vlib.tlc_parallel(jobs):
        if r.violated:
            chk.model_violation("MCArgv", r)
        vlib.require_ok(r, "MCArgv")
        chk.add_model("MCArgv", r)
        cases += r.printed("CASE")
    n = 140 if tier == "quick" else 4000
    chosen, npairs = covering_sample(cases, n, rng)
    with ThreadPoolExecutor(max_workers=12) as ex:
        out = list(ex.map(lambda ic: drive_case(bins, ic[1], ic[0]), enumerate(chosen)))
    records = [r for rs in out for r in rs]
    fails, st, tr = vlib.judge("RunJudge", records, shards=min(8, max(1, len(records) // 40)))
    drift = [(rec, whys) for rec, whys in fails if rec.get("ev") == "show"]
    fails = [(rec, whys) for rec, whys in fails if rec.get("ev") != "show"]
    chk.cov["show_listings_judged"] = sum(1 for r in records if r.get("ev") == "show")
    if drift:
        chk.notes.append({"MODEL-DRIFT": "%d `target show --commands/--argmaps` listings differ from Plan.tla's ShownNames/ShownPathOK "
                          "(outside the listed properties)" % len(drift), "first": drift[0][0], "why": drift[0][1]})
        print("NOTE: MODEL-DRIFT target show listing: %s" % (drift[0][1],))
    records = [r for r in records if r.get("ev") != "show"]
    chk.cov["states"] += st
    chk.cov["transitions"] += tr
    chk.cov["evaluations"] = len(chosen)
    chk.cov["traces_validated_against_impl"] = sum(1 for r in records if r.get("ev") != "show")
    chk.cov["enumerated_cases"] = len(cases)
    chk.cov["factor_value_pairs_covered"] = npairs
    chk.cov["distinct_nontrivial"] = len({json.dumps([r["base"], r["named"], r["requested"], r["args"], r["nobase"]]) for r in records
                                          if len(r["observed"]["argv"]) >= 2})
    chk.cov["rule"] = ("cases = TLC-enumerated combinations of base / named / missing argmap files for two targets, requested "
                       "argmap lists (order, repeats, missing), --args, --no-base-argmaps, custom directories, command "
                       "definition with/without path, one or two commands; quick runs a pairwise-covering seeded sample; "
                       "non-trivial = the executable received at least two arguments")
    for rec, whys in fails:
        for why in (whys if isinstance(whys, list) else [whys]):
            chk.violation(why, "%s (case %s, target %s, cmd %s)" % (why, rec.get("case"), "/".join(rec["target"]), rec["cmd"]), rec)
    for r in records:
        if len(r["observed"]["argv"]) >= 3:
            chk.sample({k: r[k] for k in ("cmd", "target", "base", "named", "requested", "args", "nobase", "observed")}, limit=2)
    chk.assumptions += ["argument tokens are concretised to strings with spaces, quotes, $, globs, empty strings and non-ASCII; "
                        "--args values never start with '-' (clap would parse them as flags)",
                        "command stems are unique within a command directory; decoy files share prefixes with the command name"]
    return chk.finish()


def replay(pid, path):
    obj = json.load(open(path))
    fails, _, _ = vlib.judge("RunJudge", [obj["replay"]], shards=1)
    if fails:
        print("REPLAY: record still rejected: %s" % fails[0][1])
        print("VIOLATION property=%s replay=%s" % (pid, path))
        return 1
    print("REPLAY: record accepted")
    return 0
