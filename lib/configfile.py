"""C17, C18: configuration integrity and serialisation independence. ConfigFile.tla is model-checked (all
generate/tamper/restore/edit histories); TLC-simulated histories are replayed on real files with the real
binary (regions concretised to byte offsets, three size classes); ConfigJudge.tla (TLC) validates every API
outcome. C18: one configuration value in many serialisations must give identical outputs (and, through
JudgeA/Dag.tla, the right ones)."""
import hashlib, json, os, random, shutil
from concurrent.futures import ThreadPoolExecutor
import vlib, fixture, runlib, lock as locklib

REGIONS = ["first", "in8k", "b8192", "mid", "last", "trunc", "append"]
APIS = ["analyze", "target_show", "config_show", "checkpoint_show", "run", "checkpoint_update", "target_render", "result_show"]
TAGS = {"C17": "C17:", "C18": "C18:"}


def mc_cfg(whole=True, emit=0):
    # exhaustive checking uses three abstract regions (2^(3x3) dirty combinations); the simulated behaviours that are
    # replayed on real files use the seven concrete ones
    regions = '"head", "mid", "tail"' if emit == 0 else '"first", "in8k", "b8192", "mid", "last", "trunc", "append"'
    return ('CONSTANTS Regions = {' + regions + '}\n HashWholeFile = %s\n MaxV = 2\n EmitDepth = %d\n'
            'SPECIFICATION Spec\n%sINVARIANT Emit\n%sCHECK_DEADLOCK FALSE\n') % (
        "TRUE" if whole else "FALSE", emit, "VIEW View\n" if emit == 0 else "", "PROPERTIES UsableIffUntouched FailedApiHasNoEffect\n" if emit == 0 else "")


def offsets(n):
    """Distinct byte offsets for the flip regions of a file of n bytes."""
    want = {"first": 0, "last": n - 1, "mid": n // 2, "b8192": 8192 if n > 8200 else n // 3, "in8k": min(n, 8192) // 2 + 1}
    used, out = set(), {}
    for k in ("first", "last", "b8192", "mid", "in8k"):
        o = max(0, min(n - 1, want[k]))
        while o in used:
            o = (o + 1) % n
        used.add(o)
        out[k] = o
    return out


def render(pristine, dirty, hexonly=None, ws_append=False, spaces_only=False):
    """File bytes for a set of dirty regions (canonical order: flips, then truncate, then append).
    spaces_only (used for the source file, from which `generate` may be run again): flips are moved to the nearest
    space character and turn it into a tab, so that the bytes change but the JSON value - and with it the directories
    the configuration names - stays what it was."""
    b = bytearray(pristine)
    offs = offsets(len(b)) if hexonly is None else {k: hexonly[i] for i, k in enumerate(("first", "last", "mid", "b8192", "in8k"))}
    if spaces_only and hexonly is None:
        sp = [i for i, ch in enumerate(pristine) if ch == 0x20]
        used = set()
        for k in list(offs):
            cands = sorted(sp, key=lambda i: abs(i - offs[k]))
            o = next((i for i in cands if i not in used), offs[k])
            used.add(o)
            offs[k] = o
    # the "mid" flip goes to the line feed nearest to the middle, if the file has one, and turns it into a carriage
    # return: a different byte, the same JSON value, and the kind of change a line-ending conversion makes
    lf_mid = None
    if hexonly is None:
        lfs = [i for i, ch in enumerate(pristine) if ch == 0x0A and i not in (offs.get("first"), offs.get("last"), offs.get("in8k"), offs.get("b8192"))]
        if lfs:
            lf_mid = min(lfs, key=lambda i: abs(i - len(pristine) // 2))
    for r in ("first", "in8k", "b8192", "mid", "last"):
        if r in dirty:
            o = offs[r]
            if r == "mid" and lf_mid is not None:
                b[lf_mid] = 0x0D
                continue
            if hexonly is not None:
                if r in ("first", "mid") and chr(b[o]) in "abcdef":
                    b[o] = ord(chr(b[o]).upper())       # the same hex digit in the other case: another checksum string
                else:
                    b[o] = ord("0") if b[o] != ord("0") else ord("1")
            else:
                b[o] = (b[o] ^ 0x01) if b[o] not in (0x20,) else 0x09     # space -> tab keeps the JSON value
    if hexonly is not None:
        # for the lockfile only checksum changes count: truncate/append act on the checksum value too
        if "trunc" in dirty:
            o = hexonly[5]
            b[o] = ord("a") if b[o] != ord("a") else ord("b")
        if "append" in dirty:
            o = hexonly[6]
            b[o] = ord("c") if b[o] != ord("c") else ord("d")
        return bytes(b)
    last = pristine[-1:]
    if "trunc" in dirty:
        b = b[:-1]
    if "append" in dirty:
        # appended bytes alternate between visible garbage and pure whitespace (an editor's final newline)
        if ws_append == "nul":
            b += b"\0"             # a NUL byte (what an unused buffer tail holds)
        elif ws_append == "cr":
            b += b"\r"             # a lone carriage return: whitespace to JSON, a different file to a checksum
        elif ws_append:
            b += b"\n"
        else:
            b += (b"X" if last != b"X" else b"Y")
    return bytes(b)


def make_targets(size, rng):
    """size: small | medium (> 8 KiB generated) | large (> 64 KiB generated)"""
    n = {"small": 3, "medium": 40, "large": 320}[size]
    pad = {"small": 0, "medium": 4, "large": 5}[size]
    ts = []
    for i in range(n):
        name = "t%03d_%s" % (i, "x" * (i % 9))
        t = {"path": name}
        if i > 0 and i % 3 == 0:
            t["uses"] = ["t%03d_%s" % (i - 1, "x" * ((i - 1) % 9))]
        if pad:
            t["ignores"] = ["%s/generated/section_%02d/%s.out" % (name, j, "y" * 24) for j in range(pad)]
        ts.append(t)
    return ts


def c17_history(bins, beh, hist, size, rng, sweep=False):
    targets = make_targets(size, rng)
    fx = fixture.Fixture(bins, targets)
    ev = [{"ev": "reset", "beh": beh, "size": size}]
    try:
        src_path = os.path.join(fx.repo, "Monorail.src.json")
        if isinstance(beh, int) and beh % 4 == 3:
            # everything is invoked from another directory (a wrapper script's, say), the configuration named by its
            # absolute path: `source.path` is then relative to THAT directory, for generate and for every reader alike
            fx.default_cwd = os.path.join(fx.root, "caller")
            os.makedirs(fx.default_cwd)
            src_path = os.path.join(fx.default_cwd, "Monorail.src.json")
        gen_path = fx.cfg_path
        lock_path = os.path.join(fx.repo, "Monorail.lock")
        version = [1]
        def write_source():
            cfg = fx.config()
            cfg["source"] = {"path": "Monorail.src.json"}
            cfg["_v"] = None
            cfg.pop("_v")
            cfg["sequences"] = {"v%d" % version[0]: ["build"]}
            with open(src_path, "w") as f:
                json.dump(cfg, f, indent=1)
        write_source()
        os.remove(gen_path)
        for t in targets[:2]:
            fx.add_cmd(t["path"], "build", [{"op": "exit", "code": 0}], ext=".sh")
        fx.git_init()
        pristine = {}
        dirty = {"src": set(), "gen": set(), "lock": set()}
        def reload_pristine(which):
            for k, p in (("src", src_path), ("gen", gen_path), ("lock", lock_path)):
                if k in which and os.path.exists(p):
                    pristine[k] = open(p, "rb").read()
        def hexpos():
            txt = pristine["lock"].decode()
            i = txt.index('"checksum"')
            j = txt.index('"', txt.index(":", i)) + 1
            return [j + k for k in (0, 63, 31, 16, 8, 40, 50)]
        def apply(file):
            p = {"src": src_path, "gen": gen_path, "lock": lock_path}[file]
            data = render(pristine[file], dirty[file], hexpos() if file == "lock" else None, ws_append=(True, False, "cr", "nul")[(beh + beh // 4) % 4],
                          spaces_only=(file == "src"))
            st = os.stat(p)
            with open(p, "wb") as f:
                f.write(data)
            # an adversarial edit keeps the file's timestamps (cp -p, rsync -t, restore from backup)
            if beh % 3 != 2:
                os.utime(p, ns=(st.st_atime_ns, st.st_mtime_ns))
        def generate():
            with open(src_path, "rb") as f:
                stdin = f.read()
            r = fx.monorail(["config", "generate"], stdin=stdin)
            ev.append({"ev": "generate", "rc": r["rc"] if r["rc"] is not None else -9})
            if r["rc"] == 0:
                reload_pristine(("gen", "lock"))
                dirty["gen"].clear(); dirty["lock"].clear()
                # the source as generate read it becomes the reference
                pristine["src_ref"] = open(src_path, "rb").read()
        def use(api):
            snap0 = locklib.snapshot(fx)
            fx.reset_helper()
            if api == "analyze":
                r = fx.monorail(["analyze", "--target-groups"])
            elif api == "target_show":
                r = fx.monorail(["target", "show", "-g"])
            elif api == "config_show":
                r = fx.monorail(["config", "show"])
            elif api == "checkpoint_show":
                r = fx.monorail(["checkpoint", "show"])
            elif api == "checkpoint_update":
                r = fx.monorail(["checkpoint", "update"])
            elif api == "target_render":
                r = fx.monorail(["target", "render", "-f", os.path.join(fx.root, "g.dot")])
            elif api == "result_show":
                r = fx.monorail(["result", "show"])
            else:
                r = fx.monorail(["run", "-c", "build", "-t", targets[0]["path"], targets[1]["path"]])
            started = sum(1 for e in fx.events() if e["k"] == "start")
            rc = r["rc"] if r["rc"] is not None else -9
            effects = rc != 0 and (locklib.snapshot(fx) != snap0 or started > 0)
            what = ",".join("%s:%s" % (k, "+".join(sorted(v))) for k, v in dirty.items() if v) or "source edited"
            ev.append({"ev": "use_api", "api": api, "rc": rc, "err": fx.err_type(r)[0] or "", "effects": effects, "what": what})
        reload_pristine(("src",))
        apis = list(APIS)
        k = [0]
        def next_api():
            k[0] += 1
            return apis[(k[0] + beh) % len(apis)]
        generated = False
        for a in hist:
            kind = a["a"]
            if kind == "generate":
                # `generate` reads the source as it is now: the current bytes become its pristine state
                generate()
                if ev[-1]["rc"] == 0:
                    if not generated:
                        # make checkpoint show / result show meaningful: a checkpoint and one completed run exist
                        fx.monorail(["checkpoint", "update"])
                        fx.monorail(["run", "-c", "build", "-t", targets[0]["path"]])
                    generated = True
                    # the source keeps its pristine bytes and dirty regions: restoring a region later changes the file
                    # relative to what `generate` read, exactly as in ConfigFile!Restore
            elif kind == "edit_source":
                version[0] += 1
                write_source()
                reload_pristine(("src",))
                dirty["src"].clear()
                ev.append({"ev": "edit_source"})
            elif kind in ("tamper", "restore"):
                if not generated:
                    continue
                f, r = a["file"], a["region"]
                if kind == "tamper":
                    dirty[f].add(r)
                else:
                    dirty[f].discard(r)
                apply(f)
                ev.append({"ev": kind, "file": f, "region": r})
            if generated and kind != "use_api":
                use(next_api())
                if rng.random() < 0.3:
                    use(next_api())
        if sweep and generated:
            # every offset of the generated file, one at a time, from the pristine state (Tamper, UseApi, Restore)
            for rr in list(dirty):
                dirty[rr].clear()
                apply(rr)
            pr = pristine["gen"]
            st = os.stat(gen_path)
            for o in range(0, len(pr), 1 if len(pr) <= 3000 else max(1, len(pr) // 600)):
                b = bytearray(pr)
                b[o] = 0x09 if b[o] == 0x20 else (b[o] ^ 0x01)
                with open(gen_path, "wb") as fh:
                    fh.write(bytes(b))
                os.utime(gen_path, ns=(st.st_atime_ns, st.st_mtime_ns))
                ev.append({"ev": "tamper", "file": "gen", "region": "o%d" % o})
                dirty["gen"] = {"o%d" % o}
                use("target_show")
                with open(gen_path, "wb") as fh:
                    fh.write(pr)
                dirty["gen"] = set()
                ev.append({"ev": "restore", "file": "gen", "region": "o%d" % o})
            use("analyze")
        return ev
    finally:
        fx.cleanup()


# ------------------------------------------------------------------ C18
def serialisations(cfg, rng):
    out = []
    out.append(("compact", json.dumps(cfg, separators=(",", ":"))))
    out.append(("pretty", json.dumps(cfg, indent=4)))
    def permute(o):
        if isinstance(o, dict):
            ks = list(o.keys())
            rng.shuffle(ks)
            return {k: permute(o[k]) for k in ks}
        if isinstance(o, list):
            return [permute(x) for x in o]
        return o
    out.append(("key_permuted", json.dumps(permute(cfg), indent=1)))
    def ordered(o, rev):
        if isinstance(o, dict):
            return {k: ordered(o[k], rev) for k in sorted(o.keys(), reverse=rev)}
        if isinstance(o, list):
            return [ordered(x, rev) for x in o]
        return o
    out.append(("keys_sorted", json.dumps(ordered(cfg, False), separators=(",", ":"))))
    out.append(("keys_reverse_sorted", json.dumps(ordered(cfg, True), indent=2)))
    compact = json.dumps(cfg, separators=(",", ":"))
    ntok = compact.count(",") + compact.count(":") + 1
    for name, size in (("padded_9k", 9 * 1024), ("padded_70k", 70 * 1024), ("padded_300k", 300 * 1024)):
        pad = max(1, (size - len(compact)) // ntok + 1)
        out.append((name, json.dumps(cfg, separators=("," + " " * pad, ":" + "\n" * min(pad, 3) + " " * max(0, pad - 3)))))
    out.append(("leading_trailing_ws", "\n" * 9000 + json.dumps(cfg) + " " * 9000 + "\n"))
    # multi-byte characters placed so that they straddle I/O block boundaries (4 KiB multiples up to 256 KiB)
    txt = json.dumps(cfg, ensure_ascii=False, separators=(",", ":"))
    if any(ord(ch) > 127 for ch in txt):
        raw = txt.encode("utf-8")
        import re as _re
        pieces, last, shift, boundary = [], 0, 0, 4096
        for m in _re.finditer(rb'"(?:[^"\\\\]|\\\\.)*"', raw):
            tok = m.group(0)
            k = next((x for x in range(len(tok)) if tok[x] >= 0x80), None)
            if k is None or boundary > 256 * 1024:
                continue
            cur = m.start() + shift + k            # where the first byte of the multi-byte character would land
            while boundary - 1 < cur:
                boundary *= 2
            if boundary > 256 * 1024:
                continue
            pad = boundary - 1 - cur
            pieces.append(raw[last:m.start()] + b" " * pad)
            last = m.start()
            shift += pad
            boundary *= 2
        pieces.append(raw[last:])
        out.append(("utf8_on_block_boundaries", b"".join(pieces).decode("utf-8")))
    return out


def c18_value(bins, idx, targets, rng, extra=None):
    fx = fixture.Fixture(bins, targets, extra_cfg=extra or {})
    try:
        small = len(targets) <= 45
        if small:
            # a command file in every target's default command directory, so that resolution can be observed
            for t in targets:
                fx.add_cmd(t["path"], "build", [{"op": "exit", "code": 0}], ext=".sh")
        if idx % 3 == 2:
            # the configuration file is a symbolic link to a file kept elsewhere in the repository (the link's own length
            # says nothing about the length of the configuration)
            real = os.path.join(fx.repo, ".conf", "monorail.json")
            os.makedirs(os.path.dirname(real))
            os.replace(fx.cfg_path, real)
            os.symlink(os.path.join(".conf", "monorail.json") if idx % 2 else real, fx.cfg_path)
        cfg = fx.config()
        sers = serialisations(cfg, rng)
        if idx % 2 == 1:
            # a lockfile left over beside a configuration that names no source (it matches ONE of the serialisations):
            # it must not matter
            with open(os.path.join(fx.repo, "Monorail.lock"), "w") as f:
                json.dump({"checksum": hashlib.sha256(sers[1][1].encode("utf-8")).hexdigest()}, f)
        fx.git_init()
        styles = []
        first_out = None
        for name, text in sers:
            fx.write_config(text)
            outs, rc = [], 0
            for args in (["config", "show"], ["analyze", "--target-groups"], ["target", "show", "-g"],
                         ["target", "show", "--commands", "--argmaps"]):
                r = fx.monorail(args)
                o = r["out"]
                if isinstance(o, dict):
                    o = dict(o)
                    o.pop("timestamp", None)
                outs.append(o)
                rc = max(rc, abs(r["rc"]) if r["rc"] is not None else 9)
            if small:
                # what a run resolves and executes for the first two targets (statuses only)
                r = fx.monorail(["run", "-c", "build", "-t"] + [t["path"] for t in targets[:2]])
                st = None
                if isinstance(r["out"], dict):
                    # (the order in which -t targets are taken is unspecified: statuses per target only)
                    st = [{k: v.get("status") for g in c.get("target_groups", []) for k, v in g.items()} for c in r["out"].get("results", [])]
                outs.append({"run_rc": r["rc"], "statuses": st})
            styles.append({"style": name, "size": len(text), "rc": rc,
                           "digest": hashlib.sha256(json.dumps(outs, sort_keys=True).encode()).hexdigest()[:20]})
            if first_out is None:
                first_out = outs
        rec = {"ev": "c18", "value": idx, "ntargets": len(targets), "styles": styles}
        groups_rec = None
        # the graph oracle (Dag.tla in TLC) is only affordable for moderately sized configurations
        if len(targets) <= 45 and first_out and isinstance(first_out[1], dict) and first_out[1].get("target_groups") is not None:
            groups_rec = {"ev": "groups", "config": runlib.cfg_abs(targets), "roots": sorted(runlib.P(t["path"]) for t in targets),
                          "pruned": False, "changed": [],
                          "out": {"ok": True, "err": "", "groups": [sorted(runlib.P(t) for t in g) for g in first_out[1]["target_groups"]]},
                          "via": "cli_analyze"}
        return rec, groups_rec
    finally:
        fx.cleanup()


def c18_checkpointed(bins, idx, targets, rng):
    """State written under one serialisation, read under the others: `checkpoint update` with the configuration in its
    first serialisation, a file edited, then `analyze` / `checkpoint show` / `run` under every serialisation of the same
    value must answer the same."""
    fx = fixture.Fixture(bins, targets)
    try:
        for t in targets[:3]:
            fx.add_cmd(t["path"], "build", [{"op": "exit", "code": 0}], ext=".sh")
        cfg = fx.config()
        sers = serialisations(cfg, rng)
        fx.write_config(sers[0][1])
        with open(os.path.join(fx.repo, ".gitignore"), "a") as f:
            f.write("Monorail.json\n")            # the configuration file's own bytes are not a change of the repository
        fx.git_init()
        if fx.monorail(["checkpoint", "update"])["rc"] != 0:
            raise vlib.ToolError("checkpoint update failed")
        with open(os.path.join(fx.repo, targets[0]["path"], "src.txt"), "a") as f:
            f.write("edit\n")
        styles = []
        for name, text in sers:
            fx.write_config(text)
            outs, rc = [], 0
            for args in (["analyze", "--changes", "--target-groups"], ["checkpoint", "show"]):
                r = fx.monorail(args)
                o = r["out"]
                if isinstance(o, dict):
                    o = dict(o)
                    o.pop("timestamp", None)
                outs.append(o)
                rc = max(rc, abs(r["rc"]) if r["rc"] is not None else 9)
            fx.reset_helper()
            r = fx.monorail(["run", "-c", "build"])
            outs.append({"run_rc": r["rc"], "started": sorted({(e.get("id") or {}).get("target", "?") for e in fx.events() if e["k"] == "start"})})
            styles.append({"style": name, "size": len(text), "rc": rc,
                           "digest": hashlib.sha256(json.dumps(outs, sort_keys=True).encode()).hexdigest()[:20]})
        return {"ev": "c18", "value": idx, "ntargets": len(targets), "styles": styles, "with_checkpoint": True}, None
    finally:
        fx.cleanup()


def c18_generate(bins, idx, targets, rng):
    """`config generate` reads a configuration on stdin (a pipe): every serialisation of the same value must produce
    the same generated file, lockfile and output."""
    fx = fixture.Fixture(bins, targets)
    try:
        fx.git_init()
        cfg = fx.config()
        cfg["source"] = {"path": "Monorail.src.json"}
        with open(os.path.join(fx.repo, "Monorail.src.json"), "w") as f:
            json.dump(cfg, f)
        styles = []
        for name, text in serialisations(cfg, rng):
            for pth in (fx.cfg_path, os.path.join(fx.repo, "Monorail.lock")):
                if os.path.exists(pth):
                    os.remove(pth)
            r = fx.monorail(["config", "generate"], stdin=text.encode("utf-8"))
            parts = []
            for pth in (fx.cfg_path, os.path.join(fx.repo, "Monorail.lock")):
                parts.append(open(pth, "rb").read() if os.path.exists(pth) else b"<missing>")
            o = r["out"]
            if isinstance(o, dict):
                o = dict(o); o.pop("timestamp", None)
            r2 = fx.monorail(["analyze", "--target-groups"]) if r["rc"] == 0 else {"rc": 9, "out": None}
            o2 = r2["out"]
            if isinstance(o2, dict):
                o2 = dict(o2); o2.pop("timestamp", None)
            h = hashlib.sha256(b"\0".join(parts) + json.dumps([o, o2], sort_keys=True).encode()).hexdigest()[:20]
            styles.append({"style": "generate<" + name, "size": len(text), "rc": max(abs(r["rc"] or 0), abs(r2["rc"] or 0)), "digest": h})
        return {"ev": "c18", "value": idx, "ntargets": len(targets), "styles": styles}, None
    finally:
        fx.cleanup()


def c18_race(bins, idx, targets, rng, rounds):
    """The configuration file is atomically replaced (write temp, rename) by other serialisations of the same value
    while APIs run: every invocation must succeed with the same output - an atomic replacement is never half-visible."""
    import threading
    fx = fixture.Fixture(bins, targets)
    try:
        fx.git_init()
        cfg = fx.config()
        sers = [t for _n, t in serialisations(cfg, rng)][:6]
        stop = [False]
        def flipper():
            k = 0
            while not stop[0]:
                tmp = fx.cfg_path + ".tmp%d" % (k % 2)
                with open(tmp, "w") as fh:
                    fh.write(sers[k % len(sers)])
                os.rename(tmp, fx.cfg_path)
                k += 1
        th = threading.Thread(target=flipper, daemon=True)
        th.start()
        styles = []
        try:
            for i in range(rounds):
                r = fx.monorail(["target", "show", "-g"] if i % 2 else ["config", "show"])
                o = r["out"]
                if isinstance(o, dict):
                    o = dict(o); o.pop("timestamp", None)
                styles.append({"style": "concurrent_replace#%d" % i, "size": 0, "rc": abs(r["rc"] or 0),
                               "digest": ("g" if i % 2 else "c") + hashlib.sha256(json.dumps(o, sort_keys=True).encode()).hexdigest()[:18]})
        finally:
            stop[0] = True
            th.join(timeout=10)
        # two APIs alternate: judge them as two records
        a = {"ev": "c18", "value": idx, "ntargets": len(targets), "styles": styles[0::2]}
        b = {"ev": "c18", "value": idx, "ntargets": len(targets), "styles": styles[1::2]}
        return a, b
    finally:
        fx.cleanup()


def run(pid, tier):
    level = "model_checking" if pid == "C17" else "exploration"
    chk = vlib.Check(pid, tier, level)
    bins = vlib.build()
    rng = random.Random(chk.seed)
    if pid == "C17":
        r = vlib.tlc("mc/MCConfigFile", mc_cfg(True, 0), workers=8, timeout=1800, xmx="8g")
        if r.violated:
            chk.model_violation("MCConfigFile", r)
        vlib.require_ok(r, "MCConfigFile")
        chk.add_model("MCConfigFile/ConfigFile", r, "3 regions x 3 files, 2 source versions, whole-file hashing")
        nb = 18 if tier == "quick" else 300
        depth = 14
        r = vlib.tlc("mc/MCConfigFile", mc_cfg(True, depth), workers=1, timeout=600, simulate="num=%d" % nb,
                     extra=["-depth", str(depth + 1), "-seed", str(chk.seed)])
        behs = [b["hist"] for b in r.printed("BEH")]
        if len(behs) < nb // 2:
            raise vlib.ToolError("too few simulated behaviours")
        # plus one systematic history per size class: every (file, region) tampered and restored once
        systematic = [{"a": "generate"}]
        for f in ("gen", "src", "lock"):
            for reg in REGIONS:
                systematic += [{"a": "tamper", "file": f, "region": reg}, {"a": "restore", "file": f, "region": reg}]
        # `generate` must repair whatever happened to its outputs (same source): damaged generated file, damaged lockfile
        systematic += [{"a": "tamper", "file": "gen", "region": "mid"}, {"a": "generate"},
                       {"a": "tamper", "file": "lock", "region": "first"}, {"a": "generate"},
                       {"a": "tamper", "file": "gen", "region": "append"}, {"a": "tamper", "file": "lock", "region": "mid"}, {"a": "generate"}]
        systematic += [{"a": "edit_source"}, {"a": "generate"}]
        sizes = ["small", "medium", "large"]
        jobs = [(i, [{"a": "generate"}] + h, sizes[i % 3]) for i, h in enumerate(behs)]
        jobs += [(len(behs) + j, systematic, s) for j, s in enumerate(sizes)]
        jobs.append((len(jobs), [{"a": "generate"}], "small", "sweep"))
        if tier == "thorough":
            jobs.append((len(jobs), [{"a": "generate"}], "medium", "sweep"))
        def one(j):
            return c17_history(bins, j[0], j[1], j[2], random.Random(chk.seed * 11 + j[0]), sweep=(len(j) > 3))
        with ThreadPoolExecutor(max_workers=10) as ex:
            traces = list(ex.map(one, jobs))
        clean = [[{k: v for k, v in e.items() if k not in ("size", "err")} for e in t] for t in traces]
        fails, st, tr = vlib.judge_traces("ConfigJudge", clean, shards=min(8, max(1, len(clean) // 3)))
        chk.cov["states"] += st
        chk.cov["transitions"] += tr
        chk.cov["traces_validated_against_impl"] = len(clean)
        chk.cov["evaluations"] = sum(1 for t in clean for e in t if e["ev"] == "use_api")
        chk.cov["api_calls_judged"] = chk.cov["evaluations"]
        chk.cov["distinct_nontrivial"] = len({(t[0]["size"], e["api"], e["what"]) for t in traces for e in t if e["ev"] == "use_api" and e["rc"] != 0})
        chk.cov["rule"] = ("histories = TLC-simulated generate/tamper/restore/edit sequences plus one systematic sweep (every file x every "
                           "region) per size class (generated file < 8 KiB, > 8 KiB, > 64 KiB); regions are byte offsets first / inside "
                           "the first 8 KiB / 8192 / middle / last / truncate / append (lockfile: checksum digits); after every action an "
                           "API (8 kinds, rotating) is invoked; non-trivial = distinct (size, API, tampered regions) that were rejected")
        for bi, si, rec, why in fails:
            if why.startswith("C17:"):
                sig = why.split(" (")[0] + "@" + traces[bi][0]["size"]
                chk.violation(sig, "%s [history %d step %d, %s config]" % (why, bi, si, traces[bi][0]["size"]), {"trace": traces[bi][: si + 1]})
        chk.sample([e for e in traces[0][:14]], limit=1)
    else:
        values = []
        small = [[{"path": "app", "commands": {"definitions": {"lint": {}}}, "argmaps": {}},
                  {"path": "app2", "uses": ["app"], "argmaps": {"definitions": {"ci": {"path": "app2/ci-args.json"}}}},
                  {"path": "app-web", "uses": ["app/src.txt"], "ignores": ["app/README.md"], "commands": {"path": "app-web/tools"}}],
                 [{"path": "a", "commands": {}}, {"path": "a/b", "argmaps": {"definitions": {}}}, {"path": "c", "uses": ["a/b"]}],
                 # strings that look like syntax to a careless reader: a trailing backslash, `//`, `/*`, quotes, braces, commas
                 [{"path": "app", "ignores": ["app/legacy\\", "app/{gen},[x]"], "uses": ["common//lib", "lib/*.rs", "say \"hi\" // not a comment"]},
                  {"path": "lib", "ignores": ["lib/#notes", "lib/a:b"]}, {"path": "common"}],
                 [{"path": "svc/é%02d" % i, "ignores": ["svc/é%02d/dócs/%s" % (i, "ü" * 20)]} for i in range(64)]]
        for t in small:
            values.append((t, None))
        values.append((make_targets("medium", rng), {"max_retained_runs": 3, "sequences": {"all": ["build", "test"]}}))
        values.append((make_targets("large", rng), None))
        n_extra = 2 if tier == "quick" else 40
        for i in range(n_extra):
            nt = rng.choice([2, 5, 17, 60, 150, 400])
            names = ["n%03d%s" % (j, rng.choice(["", "-web", "2", ".x"])) for j in range(nt)]
            ts = []
            for j, nm in enumerate(names):
                t = {"path": nm}
                if j and rng.random() < 0.4:
                    t["uses"] = [names[rng.randrange(j)]]
                if rng.random() < 0.2:
                    t["ignores"] = [nm + "/docs"]
                ts.append(t)
            values.append((ts, None))
        gen_values = [values[0][0], values[2][0], make_targets("medium", rng)] + ([make_targets("large", rng)] if tier == "thorough" else [])
        def one(iv):
            i, (ts, extra) = iv
            if extra == "generate":
                return c18_generate(bins, i, ts, random.Random(chk.seed * 13 + i))
            if extra == "checkpointed":
                return c18_checkpointed(bins, i, ts, random.Random(chk.seed * 13 + i))
            return c18_value(bins, i, ts, random.Random(chk.seed * 13 + i), extra)
        values += [(g, "generate") for g in gen_values]
        values += [(values[0][0], "checkpointed"), (values[1][0], "checkpointed")]
        with ThreadPoolExecutor(max_workers=8) as ex:
            res = list(ex.map(one, enumerate(values)))
        ra, rb = c18_race(bins, len(res), values[0][0], random.Random(chk.seed), 120 if tier == "quick" else 1500)
        res += [(ra, None), (rb, None)]
        recs = [[{"ev": "reset", "beh": i}, r[0]] for i, r in enumerate(res)]
        fails, st, tr = vlib.judge_traces("ConfigJudge", recs, shards=min(4, len(recs)))
        grecs = [r[1] for r in res if r[1] is not None]
        gfails, st2, tr2 = vlib.judge("JudgeA", grecs, shards=min(4, max(1, len(grecs))))
        chk.cov["states"] += st + st2
        chk.cov["transitions"] += tr + tr2
        chk.cov["evaluations"] = sum(len(r[0]["styles"]) for r in res) * 3
        chk.cov["traces_validated_against_impl"] = len(recs) + len(grecs)
        chk.cov["distinct_nontrivial"] = sum(1 for r in res for s in r[0]["styles"] if s["size"] > 8192)
        chk.cov["rule"] = ("values = small prefix-sharing configurations, generated configurations of 40-400 targets; each is written compact, "
                           "pretty, key-permuted, padded with inter-token whitespace to 9/70/300 KiB and with 9 KB of leading/trailing "
                           "whitespace; config show, analyze --target-groups and target show -g are digested per serialisation; the "
                           "groups are additionally judged against Dag.tla; non-trivial = serialisations larger than 8 KiB")
        for bi, si, rec, why in fails:
            if why.startswith("C18:"):
                chk.violation(why.split(" (")[0] if "(" in why else why, "%s [value %d, %d targets]" % (why, bi, rec.get("ntargets", 0)), rec)
        for rec, why in gfails:
            chk.violation("C18:" + why, "C18: output of analyze --target-groups is wrong: %s" % why, rec)
        chk.sample(res[0][0], limit=1)
        chk.sample(res[2][0], limit=2)
    chk.assumptions += ["a byte flip maps space to tab (the JSON value stays the same) and otherwise toggles the lowest bit",
                        "lockfile tampering changes digits of the checksum value (the property speaks of the lockfile checksum)"]
    return chk.finish()


def replay(pid, path):
    obj = json.load(open(path))
    rep = obj["replay"]
    t = rep["trace"] if "trace" in rep else [{"ev": "reset", "beh": 0}, rep]
    t = [{k: v for k, v in e.items() if k not in ("size", "err")} for e in t]
    fails, _, _ = vlib.judge_traces("ConfigJudge", [t], shards=1)
    bad = [f for f in fails if f[3].startswith(TAGS[pid])]
    if bad:
        print("REPLAY: still rejected: %s" % bad[0][3])
        print("VIOLATION property=%s replay=%s" % (pid, path))
        return 1
    print("REPLAY: accepted")
    return 0
