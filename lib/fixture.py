"""Throw-away monorail repositories driven through the real binary, real git and real child
processes (vhelper hard links)."""
import hashlib, json, os, shutil, socket, subprocess, tempfile, threading, time, signal, itertools
import vlib

_port_lock = threading.Lock()
_port_counter = itertools.count()


def _free(port):
    s = socket.socket(socket.AF_INET, socket.SOCK_STREAM)
    try:
        s.bind(("127.0.0.1", port))
        return True
    except OSError:
        return False
    finally:
        s.close()


PORT_DIR = os.path.join(tempfile.gettempdir(), "verif-ports")


def _claim(port):
    """Cross-process reservation: one file per port, created exclusively; stale claims (> 1 h) are reclaimed."""
    os.makedirs(PORT_DIR, exist_ok=True)
    path = os.path.join(PORT_DIR, str(port))
    try:
        fd = os.open(path, os.O_CREAT | os.O_EXCL | os.O_WRONLY)
        os.write(fd, str(os.getpid()).encode())
        os.close(fd)
        return True
    except FileExistsError:
        try:
            if time.time() - os.path.getmtime(path) > 3600:
                os.unlink(path)
        except OSError:
            pass
        return False


def release_ports(ports):
    for p in ports:
        try:
            os.unlink(os.path.join(PORT_DIR, str(p)))
        except OSError:
            pass


def alloc_ports(n=2):
    """Ports from 11000-18999 (outside the ephemeral range), reserved across processes and test-bound before use."""
    with _port_lock:
        out = []
        while len(out) < n:
            c = next(_port_counter)
            p = 11000 + (os.getpid() * 131 + c * 7) % 8000
            if p not in out and _claim(p):
                if _free(p):
                    out.append(p)
                else:
                    release_ports([p])
        return out


def helper_key(argv0, cwd):
    h = hashlib.sha256()
    h.update(argv0.encode())
    h.update(b"\0")
    h.update(cwd.encode())
    return h.hexdigest()[:24]


def copy_executable(src, dst, mode):
    """Copy a file that is going to be executed.  The copy is made by a child process (`cp`), never by this
    multi-threaded process itself: a descriptor open for writing here is inherited by whatever another thread forks at
    that moment and stays open in that child until it execs - and while any process holds a file open for writing,
    executing it fails with ETXTBSY ("Text file busy").  Under machine load that window is long enough to be met (it was:
    a store history on a memory file system, where the hard link to the helper falls back to a copy)."""
    p = subprocess.run(["cp", "--", src, dst], stdout=subprocess.DEVNULL, stderr=subprocess.PIPE)
    if p.returncode != 0:
        raise vlib.ToolError("cp %s %s failed: %s" % (src, dst, p.stderr.decode("utf-8", "replace")[-200:]))
    os.chmod(dst, mode)


DEFAULT_OUT_DIR = "monorail-out"
CUSTOM_OUT_DIR = ".cache/mr out"


class Fixture:
    def __init__(self, bins, targets, sequences=None, max_retained_runs=None, extra_cfg=None, gitignore=None, lock_host=None,
                 via=None, ignore_via=None, sepgit=None, root_dir=None, out_dir=None):
        """targets: list of dicts {path, uses?, ignores?, commands?, argmaps?}
        via: how the configuration file is named on the command line -- "plain" (canonical path), "link" (through a
        symbolic link to the repository), "dotdot" (a path with a `..` component).  monorail takes its work path from
        that argument as typed, so all three name the same repository.  None: derived from the configuration (so that a
        replayed scenario is invoked the same way)."""
        self.bins = bins
        # root_dir: where the throw-away repository lives (e.g. a memory file system, where a rename is much faster than
        # on a journalled disk); unusable -> the default temporary directory
        try:
            self.root = os.path.realpath(tempfile.mkdtemp(prefix="verif-fx-", dir=root_dir if root_dir and os.access(root_dir, os.W_OK) else None))
        except OSError:
            self.root = os.path.realpath(tempfile.mkdtemp(prefix="verif-fx-"))
        self.repo = os.path.join(self.root, "repo")
        self.hdir = os.path.join(self.root, "helper")
        self.home = os.path.join(self.root, "home")
        for d in (self.repo, self.hdir, self.home, os.path.join(self.hdir, "scripts"),
                  os.path.join(self.hdir, "events"), os.path.join(self.hdir, "markers")):
            os.makedirs(d)
        self.lock_port, self.log_port = alloc_ports(2)
        self.targets = targets
        self.sequences = sequences
        self.max_retained_runs = max_retained_runs
        self.extra_cfg = extra_cfg or {}
        self.lock_host = lock_host      # e.g. "localhost": a name that has to be resolved instead of an address literal
        self.cfg_path = os.path.join(self.repo, "Monorail.json")
        if via is None:
            hv = hashlib.sha256(json.dumps([targets, sequences, extra_cfg], sort_keys=True, default=str).encode()).digest()[0]
            via = ("plain", "link", "dotdot", "plain")[hv % 4]
        if os.environ.get("VERIF_VIA"):
            via = os.environ["VERIF_VIA"]
        self.via = via
        if via == "link":
            os.symlink("repo", os.path.join(self.root, "lnk"))
            self.wp = os.path.join(self.root, "lnk")
        elif via == "dotdot":
            self.wp = os.path.join(self.root, "helper", "..", "repo")
        else:
            self.wp = self.repo
        self.cfg_arg = os.path.join(self.wp, "Monorail.json")     # the -f argument; cfg_path stays the physical file
        # where monorail keeps its own state: the default `monorail-out`, or (every fourth repository) a configured
        # `out_dir` two levels down with a space in its name -- no property depends on what that directory is called
        if out_dir is None:
            if "out_dir" in self.extra_cfg:
                out_dir = self.extra_cfg["out_dir"]
            else:
                hv3 = hashlib.sha256(json.dumps([targets, sequences, max_retained_runs], sort_keys=True, default=str).encode()).digest()[3]
                out_dir = CUSTOM_OUT_DIR if hv3 % 4 == 1 else DEFAULT_OUT_DIR
                if os.environ.get("VERIF_OUTDIR"):
                    out_dir = CUSTOM_OUT_DIR if os.environ["VERIF_OUTDIR"] == "custom" else DEFAULT_OUT_DIR
        self.out_dir = out_dir
        self.sepgit = sepgit
        # where the caller's ignore patterns live: git's three standard exclude sources name the same set of paths
        if ignore_via is None:
            ignore_via = ("tree", "info", "global")[hashlib.sha256(json.dumps([targets, gitignore], sort_keys=True, default=str).encode()).digest()[1] % 3]
        self.ignore_via = os.environ.get("VERIF_IGNORE_VIA") or ignore_via
        # a temporary directory on another file system than the repository, when the machine has one
        self.tmpdir = None
        try:
            if os.path.isdir("/dev/shm") and os.stat("/dev/shm").st_dev != os.stat(self.root).st_dev and os.access("/dev/shm", os.W_OK):
                self.tmpdir = tempfile.mkdtemp(prefix="verif-tmp-", dir="/dev/shm")
        except OSError:
            self.tmpdir = None
        self.cmd_files = {}   # (target, cmd) -> (argv0, cwd, key)
        self.procs = []
        with open(os.path.join(self.home, "gitconfig"), "w") as f:
            f.write("[user]\n\tname = verif\n\temail = verif@example.invalid\n[init]\n\tdefaultBranch = main\n"
                    "[core]\n\tquotepath = true\n\texcludesFile = %s\n" % os.path.join(self.home, "ignore_global"))
        with open(os.path.join(self.home, "ignore_global"), "w") as f:
            f.write((gitignore or "") if self.ignore_via == "global" else "")
        self._info_exclude = (gitignore or "") if self.ignore_via == "info" else ""
        for t in targets:
            os.makedirs(os.path.join(self.repo, t["path"]), exist_ok=True)
            with open(os.path.join(self.repo, t["path"], "src.txt"), "w") as f:
                f.write("src of %s\n" % t["path"])
        with open(os.path.join(self.repo, ".gitignore"), "w") as f:
            f.write("monorail-out/\n" + ("" if self.out_dir == DEFAULT_OUT_DIR else "/" + self.out_dir.strip("/") + "/\n")
                    + ((gitignore or "") if self.ignore_via == "tree" else ""))
        self.write_config()

    # ------------------------------------------------------------------ config / git
    def config(self):
        cfg = {"targets": [{k: v for k, v in t.items() if k in ("path", "uses", "ignores", "commands", "argmaps")}
                           for t in self.targets],
               "server": {"lock": dict({"port": self.lock_port}, **({"host": self.lock_host} if self.lock_host else {})),
                          "log": {"port": self.log_port}}}
        if getattr(self, "lock_override", None) is not None:
            cfg["server"]["lock"] = dict(self.lock_override)       # the whole `server.lock` object as given (e.g. without a port)
        if self.sequences is not None:
            cfg["sequences"] = self.sequences
        if self.max_retained_runs is not None:
            cfg["max_retained_runs"] = self.max_retained_runs
        if self.out_dir != DEFAULT_OUT_DIR:
            cfg["out_dir"] = self.out_dir
        cfg.update(self.extra_cfg)
        return cfg

    def write_config(self, text=None):
        with open(self.cfg_path, "w") as f:
            f.write(text if text is not None else json.dumps(self.config(), indent=2))

    def env(self, extra=None):
        e = dict(os.environ)
        e.update({"GIT_CONFIG_GLOBAL": os.path.join(self.home, "gitconfig"), "GIT_CONFIG_NOSYSTEM": "1",
                  "HOME": self.home, "VERIF_HELPER_DIR": self.hdir, "LC_ALL": "C"})
        if self.tmpdir:
            e["TMPDIR"] = self.tmpdir
        for k in list(e):
            if k.startswith("MONORAIL_VERIF_"):
                del e[k]
        if extra:
            e.update(extra)
        return e

    def git(self, *args, check=True):
        p = subprocess.run(["git"] + list(args), cwd=self.repo, env=self.env(), stdout=subprocess.PIPE,
                           stderr=subprocess.PIPE, text=True)
        if check and p.returncode != 0:
            raise vlib.ToolError("git %s failed: %s" % (" ".join(args), p.stderr))
        return p.stdout

    def git_init(self, commit=True):
        # every fourth repository keeps its git directory elsewhere: `.git` is then a FILE naming it (as in a linked
        # working tree or a submodule checkout); the directory is the top of a work tree all the same
        hv = hashlib.sha256(json.dumps([self.targets, self.sequences], sort_keys=True, default=str).encode()).digest()[2]
        sep = os.environ.get("VERIF_SEPGIT", "1" if (self.sepgit if self.sepgit is not None else hv % 4 == 0) else "0") == "1"
        if sep:
            self.git("init", "-q", "--separate-git-dir", os.path.join(self.root, "sepgit"))
        else:
            self.git("init", "-q")
        if self._info_exclude:
            gd = os.path.join(self.root, "sepgit") if sep else os.path.join(self.repo, ".git")
            os.makedirs(os.path.join(gd, "info"), exist_ok=True)
            with open(os.path.join(gd, "info", "exclude"), "a") as f:
                f.write(self._info_exclude)
        if commit:
            self.git("add", "-A")
            self.git("commit", "-q", "-m", "init")

    def head(self):
        return self.git("rev-parse", "HEAD").strip()

    # ------------------------------------------------------------------ commands
    def add_cmd(self, target, cmd, steps=None, kind="def", ext="", defpath=None, cmd_dir=None, ident=None, copy=False):
        """kind: def (executable vhelper link), noexec (regular file without x bit), undef (nothing).
        Returns the helper key or None."""
        if kind == "undef":
            return None
        tdir = os.path.join(self.repo, target)
        if defpath is not None:
            path = os.path.join(self.repo, defpath)
        else:
            d = os.path.join(self.repo, cmd_dir) if cmd_dir else os.path.join(tdir, "monorail", "cmd")
            path = os.path.join(d, cmd + ext)
        os.makedirs(os.path.dirname(path), exist_ok=True)
        if os.path.lexists(path):
            os.unlink(path)
        if kind == "noexec":
            copy_executable(self.bins["vhelper"], path, 0o644)
            return None
        try:
            if copy:
                raise OSError("copy requested")     # a file of its own (its mode may be changed without touching the helper binary)
            os.link(self.bins["vhelper"], path)
        except OSError:
            copy_executable(self.bins["vhelper"], path, 0o755)
        # the helper identifies itself by (argv[0], cwd): argv[0] is built by monorail from the work path as typed, the
        # cwd is what the kernel reports (physical)
        key = helper_key(os.path.join(self.wp, os.path.relpath(path, self.repo)), tdir)
        self.cmd_files[(target, cmd)] = (path, tdir, key)
        self.set_script(target, cmd, steps or [], ident)
        return key

    def set_script(self, target, cmd, steps, ident=None):
        path, tdir, key = self.cmd_files[(target, cmd)]
        with open(os.path.join(self.hdir, "scripts", key + ".json"), "w") as f:
            json.dump({"id": ident or {"cmd": cmd, "target": target}, "steps": steps}, f)
        return key

    def key_of(self, target, cmd):
        return self.cmd_files[(target, cmd)][2]

    def marker(self, name):
        return os.path.join(self.hdir, "markers", name)

    def reset_helper(self):
        for d in ("events", "markers"):
            p = os.path.join(self.hdir, d)
            shutil.rmtree(p, ignore_errors=True)
            os.makedirs(p)

    def events(self):
        evs = []
        d = os.path.join(self.hdir, "events")
        for fn in os.listdir(d):
            with open(os.path.join(d, fn)) as f:
                for line in f:
                    line = line.strip()
                    if line:
                        try:
                            evs.append(json.loads(line))
                        except ValueError:
                            pass
        # ties: ends before starts (favours acceptance)
        evs.sort(key=lambda e: (e["ts"], 0 if e["k"] == "end" else 1))
        return evs

    # ------------------------------------------------------------------ monorail
    def monorail_cmd(self, args):
        return [self.bins["monorail"], "-f", self.cfg_arg] + list(args)

    def rel(self, p):
        """Repository-relative form of a path monorail produced (it builds them from the work path as typed)."""
        for base in (self.wp, self.repo):
            if p.startswith(base + os.sep):
                return p[len(base) + 1:]
        return os.path.relpath(p, self.repo)

    def monorail(self, args, env=None, timeout=180, stdin=None, limit_as=None, prlimit=None, allow_signal=False, cwd=None):
        """Run to completion. Returns dict rc, out (parsed stdout JSON or None), err (list of parsed stderr JSON),
        raw stdout/stderr. limit_as: address-space limit in bytes (the invocation may then die of it: rc -6)."""
        # A lock failure while no other process of this fixture is alive means a FOREIGN process holds the port (another
        # program on the machine picked the same number): interference, not behaviour -- the invocation is repeated (a
        # lock failure happens before any effect).  A monorail that fails to get a free port fails every attempt alike.
        for attempt in range(6):
            r = self._monorail_once(args, env, timeout, stdin, limit_as, prlimit, allow_signal, cwd)
            foreign = (r.get("rc") not in (0, None) and b"Lock acquisition failed" in (r.get("stderr") or b"")
                       and b"in use" in (r.get("stderr") or b"")
                       and all(q.poll() is not None for q in self.procs))
            if not foreign:
                return r
            time.sleep(1.0 + attempt)
        return r

    def _monorail_once(self, args, env, timeout, stdin, limit_as, prlimit, allow_signal=False, cwd=None):
        cmd = self.monorail_cmd(args)
        if limit_as:
            cmd = ["prlimit", "--as=%d" % limit_as] + cmd
        if prlimit:
            cmd = ["prlimit"] + list(prlimit) + cmd
        p = subprocess.Popen(cmd, cwd=cwd or getattr(self, "default_cwd", None) or self.repo, env=self.env(env), stdout=subprocess.PIPE,
                             stderr=subprocess.PIPE, stdin=subprocess.PIPE if stdin is not None else subprocess.DEVNULL,
                             start_new_session=True)
        self.procs.append(p)
        try:
            so, se = p.communicate(input=stdin, timeout=timeout)
        except subprocess.TimeoutExpired:
            self.kill_group(p)
            so, se = p.communicate()
            return {"rc": None, "timeout": True, "out": None, "err": [], "stdout": so, "stderr": se}
        if p.returncode is not None and p.returncode < 0 and (limit_as or allow_signal):
            return {"rc": p.returncode, "timeout": False, "out": None, "err": [], "stdout": so, "stderr": se}
        if p.returncode is not None and p.returncode < 0:
            # killed by a signal the harness did not send (e.g. the kernel's out-of-memory killer): an environment
            # problem, never a verdict about monorail
            raise vlib.ToolError("monorail %s was killed by signal %d" % (" ".join(args[:3]), -p.returncode))
        return self._result(p.returncode, so, se)

    @staticmethod
    def _result(rc, so, se):
        out = None
        try:
            out = json.loads(so.decode("utf-8", "replace")) if so.strip() else None
        except ValueError:
            out = None
        errs = []
        for line in se.decode("utf-8", "replace").splitlines():
            try:
                errs.append(json.loads(line))
            except ValueError:
                errs.append({"raw": line})
        return {"rc": rc, "timeout": False, "out": out, "err": errs, "stdout": so, "stderr": se}

    def spawn(self, args, env=None, stdout=subprocess.PIPE, stderr=subprocess.PIPE, prefix=None):
        p = subprocess.Popen(list(prefix or []) + self.monorail_cmd(args), cwd=self.repo, env=self.env(env), stdout=stdout,
                             stderr=stderr, stdin=subprocess.DEVNULL, start_new_session=True)
        self.procs.append(p)
        return p

    @staticmethod
    def kill_group(p, sig=signal.SIGKILL):
        """Kill the process group led by p (p itself and whatever it left behind). Once p has been reaped its pid may be
        handed out again: a LIVE process with that pid is then somebody else's (a process group id stays reserved only
        while members of the old group remain, and the old leader is gone) - never signal that."""
        if p.poll() is not None and os.path.exists("/proc/%d" % p.pid):
            return
        try:
            os.killpg(p.pid, sig)
        except (ProcessLookupError, PermissionError):
            pass

    def err_type(self, res):
        for e in res["err"]:
            if isinstance(e, dict) and e.get("kind") == "error":
                return e.get("type"), e.get("message")
        return None, None

    def out_path(self, *parts):
        return os.path.join(self.repo, self.out_dir, *parts)

    def cleanup(self):
        for p in self.procs:
            if p.poll() is None:
                self.kill_group(p)
            else:
                self.kill_group(p)   # orphans of crash scenarios share the process group
        for p in self.procs:
            try:
                p.wait(timeout=5)
            except Exception:
                pass
        shutil.rmtree(self.root, ignore_errors=True)
        if self.tmpdir:
            shutil.rmtree(self.tmpdir, ignore_errors=True)
        release_ports([self.lock_port, self.log_port])


def decode_zst(path):
    p = subprocess.run(["zstd", "-dc", path], stdout=subprocess.PIPE, stderr=subprocess.PIPE)
    if p.returncode != 0:
        return None
    return p.stdout
