"""Free-running concurrent invocations validated against the composed specification (trace/MonorailTrace.tla).

Several real monorail processes are started on one repository with small random offsets and nobody holds them; their
hook events (guarded build, system-wide monotonic stamps) and the driver's start / kill / exit events are merged by stamp
and handed to TLC, which looks for an interleaving of the two unlogged instants (the bind itself, the release at process
exit) that makes the event list a behaviour of Monorail.tla ending in the out directory as it was found."""
import json, os, random, subprocess, time
from concurrent.futures import ThreadPoolExecutor
import vlib, fixture, session

POINT_EVENT = {"lock.acquired": "acquired", "run.id_chosen": "id_chosen", "run.slot_removed": "slot_removed",
               "run.slot_created": "slot_created", "run.planned": "planned", "run.executed": "executed",
               "run.result_stored": "result_stored", "ptr.renamed": "ptr_renamed", "cp.truncated": "cp_truncated",
               "cp.written": "cp_written", "lock.releasing": "releasing"}
ARGS = {"run": ["run", "-c", "build"], "cp_update": ["checkpoint", "update", "--pending"], "cp_delete": ["checkpoint", "delete"],
        "out_delete": ["out", "delete", "--all"]}
APIS = ["run", "run", "cp_update", "cp_update", "cp_delete", "out_delete"]
NSLOTS = 2


def scenario(bins, idx, rng):
    fx = fixture.Fixture(bins, [dict(t) for t in session.TARGETS], max_retained_runs=NSLOTS, lock_host="localhost" if idx % 3 == 2 else None)
    try:
        for t in "abc":
            with open(os.path.join(fx.repo, t, "f"), "w") as f:
                f.write(session.content(1))
            fx.add_cmd(t, "build", [{"op": "out", "text": "built %s\n" % t}, {"op": "sleep", "ms": rng.choice([0, 5, 30])}, {"op": "exit", "code": 0}], ext=".sh")
        fx.git_init()
        commits = [fx.head()]
        events = []
        wt = {"af": 1, "bf": 1, "cf": 1}
        def env_round():
            for _ in range(rng.randint(0, 2)):
                pth = rng.choice(["af", "bf", "cf"])
                c = 3 - wt[pth]
                with open(os.path.join(fx.repo, session.PATHS[pth]), "w") as f:
                    f.write(session.content(c))
                wt[pth] = c
                events.append({"e": "edit", "path": pth, "c": c, "ts": time.monotonic_ns(), "p": 0})
            if rng.random() < 0.3 and len(commits) < 4:
                st = fx.git("status", "--porcelain")
                if st.strip():
                    fx.git("add", "-A"); fx.git("commit", "-q", "-m", "c%d" % len(commits))
                    commits.append(fx.head())
                    events.append({"e": "commit", "ts": time.monotonic_ns(), "p": 0})
        nproc = 0
        procs = []
        reader_ids = []
        for wave in range(rng.randint(1, 2)):
            env_round()
            wave_procs = []
            k = rng.randint(2, 4)
            for _ in range(k):
                nproc += 1
                api = rng.choice(APIS)
                trace = os.path.join(fx.root, "fr-%d.ndjson" % nproc)
                so = open(os.path.join(fx.root, "fr-%d.out" % nproc), "wb")
                se = open(os.path.join(fx.root, "fr-%d.err" % nproc), "wb")
                events.append({"e": "start", "p": nproc, "api": api, "ts": time.monotonic_ns()})
                p = fx.spawn(ARGS[api], env={"MONORAIL_VERIF_TRACE": trace}, stdout=so, stderr=se)
                wave_procs.append((nproc, api, p, trace, so, se))
                time.sleep(rng.choice([0, 0, 0.002, 0.01, 0.03]))
            # readers next to them (no lock, no hooks): `result show` at some moment while the others are at work
            readers = []
            for _ in range(rng.choice([0, 1, 1, 2])):
                nproc += 1
                time.sleep(rng.choice([0, 0.003, 0.015, 0.05]))
                ro = open(os.path.join(fx.root, "fr-%d.out" % nproc), "wb")
                ts0 = time.monotonic_ns()
                rapi = rng.choice(["result_show", "analyze", "cp_show"])
                rp = fx.spawn({"result_show": ["result", "show"], "analyze": ["analyze"], "cp_show": ["checkpoint", "show"]}[rapi],
                              stdout=ro, stderr=subprocess.DEVNULL)
                readers.append((nproc, rp, ro, ts0, rapi))
            victim = rng.choice(wave_procs) if rng.random() < 0.35 else None
            if victim is not None:
                time.sleep(rng.choice([0, 0.005, 0.02, 0.06]))
                if victim[2].poll() is None:
                    events.append({"e": "kill_sent", "p": victim[0], "ts": time.monotonic_ns()})
                    fx.kill_group(victim[2])
                else:
                    victim = None
            for (n, api, p, trace, so, se) in wave_procs:
                p.wait(timeout=120)
                ts = time.monotonic_ns()
                so.close(); se.close()
                if victim is not None and victim[0] == n:
                    events.append({"e": "reaped", "p": n, "ts": ts})
                else:
                    if p.returncode < 0:
                        raise vlib.ToolError("monorail %s was killed by signal %d" % (api, -p.returncode))
                    err = ""
                    for line in open(os.path.join(fx.root, "fr-%d.err" % n), errors="replace"):
                        try:
                            e = json.loads(line)
                            if e.get("kind") == "error":
                                err = "server" if (e.get("type") == "server" or "lock" in (str(e.get("type", "")) + " " + str(e.get("message", ""))).lower()) else e.get("type", "")
                        except ValueError:
                            pass
                    xe = {"e": "exit", "p": n, "rc": p.returncode, "lockerr": p.returncode != 0 and err == "server", "ts": ts}
                    if api == "run" and p.returncode == 0:
                        # which targets the run says it covered (its result document)
                        try:
                            doc = json.load(open(os.path.join(fx.root, "fr-%d.out" % n)))
                            xe["ran"] = sorted(t.split("/") for g in doc["results"][0]["target_groups"] for t in g.keys())
                        except (OSError, ValueError, KeyError, IndexError, TypeError, AttributeError):
                            pass
                    events.append(xe)
                try:
                    for l in open(trace):
                        try:
                            h = json.loads(l)
                        except ValueError:
                            continue
                        if h.get("pid") == p.pid and h.get("point") in POINT_EVENT:
                            ev = {"e": POINT_EVENT[h["point"]], "p": n, "ts": h["ts"]}
                            if ev["e"] == "id_chosen":
                                ev["k"] = int(h.get("arg") or 0)
                            events.append(ev)
                except OSError:
                    pass
            for (n, rp, ro, ts0, rapi) in readers:
                rp.wait(timeout=120)
                ts = time.monotonic_ns()
                ro.close()
                if rapi == "analyze":
                    try:
                        doc = json.load(open(os.path.join(fx.root, "fr-%d.out" % n)))
                    except (OSError, ValueError):
                        doc = None
                    if rp.returncode == 0 and not (isinstance(doc, dict) and isinstance(doc.get("targets"), list) and "checkpointed" in doc):
                        continue        # an answer the driver cannot place
                    events.append({"e": "start", "p": n, "api": "analyze", "ts": ts0})
                    events.append({"e": "answered", "p": n, "ok": rp.returncode == 0, "ts": ts,
                                   "checkpointed": bool(doc.get("checkpointed")) if rp.returncode == 0 else False,
                                   "targets": [t.split("/") for t in doc["targets"]] if rp.returncode == 0 else []})
                    reader_ids.append(n)
                    continue
                if rapi == "cp_show":
                    try:
                        doc = json.load(open(os.path.join(fx.root, "fr-%d.out" % n)))
                    except (OSError, ValueError):
                        doc = None
                    cpd = doc.get("checkpoint") if isinstance(doc, dict) else None
                    if rp.returncode == 0 and not (isinstance(cpd, dict) and isinstance(cpd.get("id"), str)):
                        continue        # an answer the driver cannot place
                    ev = {"e": "cp_shown", "p": n, "ok": rp.returncode == 0, "ts": ts, "id": 0, "pend": {"af": -1, "bf": -1, "cf": -1}}
                    if rp.returncode == 0:
                        inv_paths = {v: k for k, v in session.PATHS.items()}
                        ev["id"] = commits.index(cpd["id"]) + 1 if cpd["id"] in commits else -1
                        for path, sha in (cpd.get("pending") or {}).items():
                            if path in inv_paths:
                                ev["pend"][inv_paths[path]] = 0 if sha == "" else (1 if sha == session.sha(1) else 2 if sha == session.sha(2) else -2)
                            else:
                                ev["id"] = -1       # a path the scenario never touched: no instant offers it
                    events.append({"e": "start", "p": n, "api": "cp_show", "ts": ts0})
                    events.append(ev)
                    reader_ids.append(n)
                    continue
                slot = 0
                try:
                    doc = json.load(open(os.path.join(fx.root, "fr-%d.out" % n)))
                    slot = int(os.path.basename(doc["out"]["run"]["path"].rstrip("/")))
                except (OSError, ValueError, KeyError, TypeError):
                    slot = 0
                ok = rp.returncode == 0 and 1 <= slot <= NSLOTS
                if rp.returncode == 0 and not ok:
                    continue            # an answer the driver cannot place (shape drift): the reader is left out of the trace
                events.append({"e": "start", "p": n, "api": "result_show", "ts": ts0})
                events.append({"e": "shown", "p": n, "ok": ok, "slot": slot if ok else 0, "ts": ts})
                reader_ids.append(n)
            procs += wave_procs
        # order: by stamp; the driver's own stamps bracket the processes' (start before spawn, exit after reaping)
        events.sort(key=lambda e: e["ts"])
        real = session.project(fx, NSLOTS)
        cp = real["cp"]
        fin = {"ptr": real["ptr"], "slots": [("open" if s["stage"] == "open" else s["stage"]) for s in real["slots"]],
               "cpkind": "ok", "cp": {"id": 0, "pend": {"af": -1, "bf": -1, "cf": -1}}}
        if cp == "absent":
            fin["cpkind"] = "absent"
        elif cp == "torn" or not isinstance(cp, dict):
            fin["cpkind"] = "torn"
        else:
            inv = {v: k for k, v in session.PATHS.items()}
            pend = {"af": -1, "bf": -1, "cf": -1}
            for path, sha in (cp.get("pending") or {}).items():
                if path in inv:
                    pend[inv[path]] = 0 if sha == "" else (1 if sha == session.sha(1) else 2 if sha == session.sha(2) else -2)
            fin["cp"] = {"id": commits.index(cp.get("id")) + 1 if cp.get("id") in commits else -1, "pend": pend}
        if any(s["stage"] == "torn-result" for s in real["slots"]):
            fin["slots"] = ["torn-result" if s["stage"] == "torn-result" else x for s, x in zip(real["slots"], fin["slots"])]
        trace_events = [{k: v for k, v in e.items() if k != "ts"} for e in events] + [{"e": "final", "p": 0, "final": fin}]
        return {"idx": idx, "nproc": nproc, "events": trace_events, "apis": [a for (_, a, *_rest) in procs], "readers": reader_ids}
    finally:
        fx.cleanup()


def trace_cfg(nproc, prefix):
    return ('CONSTANTS Procs = {%s}\n Paths = {"af", "bf", "cf"}\n Cfg <- MCCfg\n Comp <- MCComp\n N = %d\n MaxRuns = 99\n'
            ' MaxCommits = 99\n MaxEdits = 99\n PrefixN = %d\nSPECIFICATION TSpec\nINVARIANT %s\nCHECK_DEADLOCK FALSE\n') % (
        ", ".join(str(i + 1) for i in range(nproc)), NSLOTS, max(prefix, 0), "NotAccepted" if prefix < 0 else "NotReached")


def validate(rec, tmpdir, prefix=-1):
    """True iff TLC finds a behaviour of the trace specification that explains the events (prefix >= 0: the first
    `prefix` events only)."""
    path = os.path.join(tmpdir, "fr-%d.ndjson" % rec["idx"])
    with open(path, "w") as f:
        for e in rec["events"]:
            f.write(json.dumps(e) + "\n")
    r = vlib.tlc("trace/MonorailTrace", trace_cfg(rec["nproc"], prefix), workers=1, timeout=600, env={"TRACE": path}, xmx="2g", deque=True)
    if not r.ok and not r.violated:
        raise vlib.ToolError("MonorailTrace did not run: " + r.out[-1500:])
    return ("NotAccepted" if prefix < 0 else "NotReached") in r.violated, r


def explained_prefix(rec, tmpdir):
    """Longest prefix of the events that is explainable (bisection; only used to report a rejection)."""
    lo, hi = 0, len(rec["events"]) - 1
    while lo < hi:
        mid = (lo + hi + 1) // 2
        ok, _ = validate(rec, tmpdir, prefix=mid)
        if ok:
            lo = mid
        else:
            hi = mid - 1
    return lo


def classify(rec, k):
    """Which property a rejection at event k (0-based: the first event that cannot be explained) speaks about."""
    ev = rec["events"]
    if k >= len(ev):
        return None, "trace explained"
    e = ev[k]
    p = e.get("p", 0)
    acquired_before = any(x["e"] == "acquired" and x.get("p") == p for x in ev[:k])
    if e["e"] == "acquired":
        return "C14", "an invocation got past lock acquisition while another one was past it and alive"
    if e["e"] == "exit" and e.get("lockerr"):
        return "C14", "an invocation failed with a lock error although no other invocation could have held the lock"
    if e["e"] in POINT_EVENT.values() and e["e"] != "releasing" and not acquired_before:
        return "C14", "an invocation that had not acquired the lock went on to %s" % e["e"]
    if e["e"] == "final":
        return None, "the out directory found at the end is not the one the explained events lead to"
    return None, "event %s of an invocation past the lock does not follow the specification's step order" % e["e"]


def stage(chk, bins, pid, n):
    """Free-running scenarios inside a property check (C14): a rejection that speaks about lock acquisition is a
    violation, any other rejection a MODEL-DRIFT note."""
    import tempfile, shutil
    tmp = tempfile.mkdtemp(prefix="freerun-")
    try:
        with ThreadPoolExecutor(max_workers=6) as ex:
            recs = list(ex.map(lambda i: scenario(bins, i, random.Random(chk.seed * 7001 + i)), range(n)))
        with ThreadPoolExecutor(max_workers=6) as ex:
            verdicts = list(ex.map(lambda r: validate(r, tmp), recs))
        acc = 0
        for rec, (ok, res) in zip(recs, verdicts):
            chk.cov["states"] += res.distinct
            chk.cov["transitions"] += res.generated
            if ok:
                acc += 1
                continue
            if rec.get("readers") or any("ran" in e for e in rec["events"]):
                # a rejection may come from a reader or from a run's covered targets alone (beyond what this stage
                # decides): judge the lock discipline on the trace without them, and report them as drift
                bare = dict(rec, events=[{k: v for k, v in e.items() if k != "ran"} for e in rec["events"] if e.get("p") not in rec["readers"]], readers=[])
                ok2, _ = validate(bare, tmp)
                if ok2:
                    acc += 1
                    chk.notes.append({"MODEL-DRIFT": "free-running trace %d: a concurrent reader (`result show` / `analyze` / `checkpoint show`) answered something no instant of the explained behaviour offers, or a run covered other targets than the ones affected when it read the repository" % rec["idx"],
                                      "readers": [e for e in rec["events"] if e.get("e") in ("shown", "answered", "cp_shown")]})
                    print("NOTE: MODEL-DRIFT free-running trace %d: concurrent reader not explained" % rec["idx"])
                    continue
                rec = bare
            k = explained_prefix(rec, tmp)
            tag, why = classify(rec, k)
            if tag == pid:
                chk.violation("freerun:" + why[:70], "%s: %s (free-running scenario %d, event %d: %s)" % (tag, why, rec["idx"], k, json.dumps(rec["events"][k]) if k < len(rec["events"]) else "-"),
                              {"ev": "freerun", "idx": rec["idx"], "nproc": rec["nproc"], "events": rec["events"], "unexplained_at": k})
            else:
                chk.notes.append({"MODEL-DRIFT": "free-running trace %d is not a behaviour of Monorail.tla: %s" % (rec["idx"], why), "event": rec["events"][k] if k < len(rec["events"]) else None})
                print("NOTE: MODEL-DRIFT free-running trace %d: %s" % (rec["idx"], why))
        chk.cov["freerun_traces_validated"] = len(recs)
        chk.cov["freerun_traces_accepted"] = acc
        chk.cov["freerun_events"] = sum(len(r["events"]) for r in recs)
        chk.cov["traces_validated_against_impl"] += len(recs)
        return recs
    finally:
        shutil.rmtree(tmp, ignore_errors=True)


def replay_one(pid, obj):
    """Re-validate a recorded free-running trace against the current specification."""
    import tempfile, shutil
    tmp = tempfile.mkdtemp(prefix="freerun-")
    try:
        rec = {"idx": obj.get("idx", 0), "nproc": obj["nproc"], "events": obj["events"]}
        ok, _ = validate(rec, tmp)
        if ok:
            print("REPLAY: the recorded trace is a behaviour of Monorail.tla")
            return 0
        k = explained_prefix(rec, tmp)
        tag, why = classify(rec, k)
        print("REPLAY: still rejected at event %d: %s" % (k, why))
        return 1 if tag == pid else 0
    finally:
        shutil.rmtree(tmp, ignore_errors=True)
