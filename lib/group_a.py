"""C01, C10, C03, C09: configuration semantics (Targets.tla, Dag.tla) bound to core::Index,
core::graph::Dag and app::analyze through the in-process hooks, judged by TLC (JudgeA.tla)."""
import json, os, shutil, subprocess, tempfile, time
import vlib

SCOPES = {
    "E1": dict(MaxT=2, MaxU=1, MaxI=1, shards=8),      # 16 681 configurations
    "E1b": dict(MaxT=2, MaxU=2, MaxI=1, shards=12),    # adds two-uses chains (cycles via uses)
    "E2": dict(MaxT=3, MaxU=2, MaxI=1, shards=16),     # 1 302 000 configurations
    "E2s": dict(MaxT=3, MaxU=2, MaxI=1, shards=64, run_shards=5),   # a deterministic 5/64 of E2 (~100 000 configurations)
    "N3": dict(MaxT=3, MaxU=1, MaxI=1, shards=2, chain=True),   # three nesting levels a, a/a, a/a/a: 1 600 configurations
    "N3b": dict(MaxT=3, MaxU=2, MaxI=1, shards=8, chain=True),  # ... with two uses entries: 31 240 configurations
}

WHY_CLASS = {
    "C01": None,   # all analyze reasons
    "C10": None,   # all edges reasons
    "C03": {"acyclic configuration rejected", "groups are not a valid layering of the requested targets",
            "duplicate inside a group", "acyclic graph rejected",
            "groups are not a valid layering of the closure of the roots"},
    "C09": {"groups returned for a cyclic configuration", "cyclic configuration rejected with a non-graph error",
            "groups returned for a cyclic graph", "cyclic graph rejected with a non-graph error"},
}
KINDS = {"C01": "analyze", "C10": "edges", "C03": "groups", "C09": "groups"}


def targets_cfg(scope, shard, emit=True, laws=True):
    s = SCOPES[scope]
    inv = " ".join((["Laws"] if laws else []) + ["Emit"])
    return ("CONSTANTS MaxT = %d\n MaxU = %d\n MaxI = %d\n Shard = %d\n NShards = %d\n EmitCases = %s\n Chain = %s\n"
            "SPECIFICATION Spec\nINVARIANTS %s\nCHECK_DEADLOCK FALSE\n"
            % (s["MaxT"], s["MaxU"], s["MaxI"], shard, s["shards"], "TRUE" if emit else "FALSE",
               "TRUE" if s.get("chain") else "FALSE", inv))


def mc_targets(chk, scope, laws=True):
    """Enumerate every configuration of the scope in TLC, check the laws, return the cases."""
    n = SCOPES[scope].get("run_shards", SCOPES[scope]["shards"])
    jobs = [dict(module="mc/MCTargets", cfg_text=targets_cfg(scope, i, True, laws), workers=1, timeout=3000, xmx="3g")
            for i in range(n)]
    results = vlib.tlc_parallel(jobs, max_parallel=min(n, vlib.NCPU))
    cases = []
    for r in results:
        if r.violated:
            chk.model_violation("MCTargets/" + scope, r)
        vlib.require_ok(r, "MCTargets " + scope)
        chk.add_model("MCTargets", r, scope)
        # kept as compact JSON strings (hundreds of thousands in the thorough tier), TLC's output released at once
        cases.extend(json.dumps(c, separators=(",", ":")) for c in r.printed("CASE"))
        r.out = ""
    if not cases:
        raise vlib.ToolError("MCTargets emitted no cases")
    return cases


def mc_dag(chk, n, emit=True):
    cfg = ("CONSTANTS N = %d\n EmitCases = %s\nSPECIFICATION Spec\nINVARIANTS KahnCorrect LatestPlacement Emit\n"
           "CHECK_DEADLOCK FALSE\n" % (n, "TRUE" if emit else "FALSE"))
    r = vlib.tlc("mc/MCDag", cfg, workers=8 if n >= 5 else 4, timeout=3000, xmx="8g")
    if r.violated:
        chk.model_violation("MCDag", r)
    vlib.require_ok(r, "MCDag N=%d" % n)
    chk.add_model("MCDag", r, "N=%d" % n)
    return r.printed("CASE") if emit else []


def vinproc(bins, args):
    p = subprocess.run([bins["vinproc"]] + args, stdout=subprocess.PIPE, stderr=subprocess.PIPE, text=True)
    if p.returncode != 0:
        raise vlib.ToolError("vinproc %s failed: %s" % (args[0], p.stderr[-2000:]))
    return json.loads(p.stdout.strip().splitlines()[-1])


def read_records(path):
    """Records stay raw JSON lines (hundreds of thousands in the thorough tier): parsed only where a field is needed."""
    if not os.path.exists(path):
        return []
    with open(path) as f:
        return [l.rstrip("\n") for l in f if l.strip()]


def as_dict(r):
    return json.loads(r) if isinstance(r, str) else r


def nontrivial(pid, r):
    if r["ev"] == "analyze":
        pcs = r["out"].get("per_change", [])
        return any(t["reason"] in ("uses", "ignores") for e in pcs for t in e["targets"])
    if r["ev"] == "edges":
        return len(r["out"].get("edges", [])) > 0
    if r["ev"] in ("groups", "dag"):
        if pid == "C09":
            return (not r["out"]["ok"]) and r["out"].get("err") == "graph"
        return r["out"]["ok"] and len(r["out"]["groups"]) >= 2
    return False


def trim(r):
    r = json.loads(json.dumps(r))
    o = r.get("out", {})
    for k in ("singles", "pairs", "presentations"):
        if k in o:
            o[k] = "(%d entries)" % len(o[k])
    return r


def cli_sample(bins, pid, tier, seed):
    """The same questions asked through the real CLI: target render (C10), analyze --target-groups,
    target show -g and run / run -t X --deps on random small configurations with prefix-sharing names,
    many of them cyclic (uses cycles, uses into a nested target)."""
    import random, re
    from concurrent.futures import ThreadPoolExecutor
    import fixture, runlib
    n = {"quick": 14, "thorough": 160}[tier]
    names = ["app", "app2", "app-web", "lib", "lib2", "liblib", "core", "app/api", "app/api/v2", "lib/net"]
    def one(i):
        rng = random.Random(seed * 977 + i)
        paths = rng.sample(names, rng.randint(3, 7))
        want_cycle = (pid == "C09") or rng.random() < 0.3
        ts = []
        for p in paths:
            t = {"path": p}
            others = [q for q in paths if q != p]
            k = rng.randint(0, 2)
            if k and pid != "C09" and not want_cycle:
                # acyclic by construction: only use targets that sort before this one and do not enclose / nest
                others = [q for q in others if q < p and not p.startswith(q + "/") and not q.startswith(p + "/")]
            if others and k:
                t["uses"] = [rng.choice(others) + rng.choice(["", "/src.txt", "/", "/."]) for _ in range(min(k, len(others)))]
            ts.append(t)
        rng.shuffle(ts)
        if i % 4 == 3:
            # one target is declared with a trailing slash, and the entries that name it spell it the same way
            flat = [t for t in ts if "/" not in t["path"] and not any(o["path"].startswith(t["path"] + "/") for o in ts)]
            if flat:
                sl = rng.choice(flat)["path"]
                for t in ts:
                    if t["path"] == sl:
                        t["path"] = sl + "/"
                    if t.get("uses"):
                        t["uses"] = [sl + "/" if u in (sl, sl + "/") else u for u in t["uses"]]
        fx = fixture.Fixture(bins, ts)
        a_recs, r_recs = [], []
        try:
            for t in ts:
                fx.add_cmd(t["path"], "build", [{"op": "exit", "code": 0}], ext=".sh")
            if i % 3 == 2:
                # one target keeps nothing but symbolic links in its directory: every regular file of it (sources, the
                # command directory) lives elsewhere in the repository and is reached through a link
                leaves = [t["path"] for t in ts[1:] if not any(o["path"].startswith(t["path"] + "/") for o in ts)]
                if leaves:
                    lp = rng.choice(leaves)
                    store = os.path.join(fx.repo, ".store", lp.replace("/", "_"))
                    os.makedirs(store)
                    for entry in os.listdir(os.path.join(fx.repo, lp)):
                        os.rename(os.path.join(fx.repo, lp, entry), os.path.join(store, entry))
                        os.symlink(os.path.relpath(os.path.join(store, entry), os.path.join(fx.repo, lp)), os.path.join(fx.repo, lp, entry))
            fx.git_init()
            cfg = runlib.cfg_abs(ts)
            allr = sorted(runlib.P(t["path"]) for t in ts)
            def groups_of(res, key):
                if res["rc"] == 0 and isinstance(res["out"], dict) and res["out"].get(key) is not None:
                    return {"ok": True, "err": "", "groups": [sorted(runlib.P(x) for x in g) for g in res["out"][key]]}
                return {"ok": False, "err": fx.err_type(res)[0] or "other", "groups": []}
            if i % 2 == 1:
                # another command has been used in this repository before (whatever it left behind must not matter): a run
                # restricted to one target and its dependencies
                fx.monorail(["run", "-c", "build", "-t", rng.choice(ts)["path"], "--deps"])
            for api, args in (("cli_analyze", ["analyze", "--target-groups"]), ("cli_target_show", ["target", "show", "-g"])):
                r = fx.monorail(args)
                a_recs.append({"ev": "groups", "config": cfg, "roots": allr, "pruned": False, "changed": [], "out": groups_of(r, "target_groups"), "via": api})
            # the same question with a checkpoint and nothing changed since (the pruned grouping is empty - or, for a
            # cyclic configuration, the graph error)
            if fx.monorail(["checkpoint", "update"])["rc"] == 0:
                r = fx.monorail(["analyze", "--target-groups"])
                a_recs.append({"ev": "groups", "config": cfg, "roots": allr, "pruned": True, "changed": [], "out": groups_of(r, "target_groups"),
                               "via": "cli_analyze_checkpointed_nothing_changed"})
                fx.monorail(["checkpoint", "delete"])
            # the pruned grouping with something changed: a file is pending at the checkpoint and changes again afterwards,
            # arriving with an OLD modification time (cp -p, rsync -t, tar x, a clock that stepped back)
            plain_src = [t["path"] for t in ts if not os.path.islink(os.path.join(fx.repo, t["path"], "src.txt"))
                         and not os.path.islink(os.path.join(fx.repo, t["path"]))]
            if plain_src and i % 2 == 0:
                xp = rng.choice(plain_src)
                fp = os.path.join(fx.repo, xp, "src.txt")
                with open(fp, "a") as f:
                    f.write("pending edit\n")
                if fx.monorail(["checkpoint", "update", "--pending"])["rc"] == 0:
                    r = fx.monorail(["analyze", "--target-groups"])
                    a_recs.append({"ev": "groups", "config": cfg, "roots": allr, "pruned": True, "changed": [], "change_paths": [],
                                   "out": groups_of(r, "target_groups"), "via": "cli_analyze_pending_checkpoint_nothing_changed"})
                    with open(fp, "a") as f:
                        f.write("edited again %d\n" % i)
                    os.utime(fp, (1262304000 + i, 1262304000 + i))
                    r = fx.monorail(["analyze", "--target-groups"])
                    a_recs.append({"ev": "groups", "config": cfg, "roots": allr, "pruned": True, "changed": [], "change_paths": [runlib.P(xp + "/src.txt")],
                                   "out": groups_of(r, "target_groups"), "via": "cli_analyze_pending_checkpoint_old_mtime_edit"})
                    fx.monorail(["checkpoint", "delete"])
                fx.git("checkout", "--", xp + "/src.txt")
            dot = os.path.join(fx.root, "g.dot")
            if i % 2 == 0:
                # the output file already holds an older, longer render: nothing of it may survive
                with open(dot, "w") as f:
                    f.write("digraph DAG {\n" + "".join('%d [label="stale/old%d"];\n%d -> %d\n' % (90 + j, j, 90 + j, 91 + j) for j in range(40))
                            + "node [shape=box];\nedge [color=gray];\n}")
            r = fx.monorail(["target", "render", "-f", dot])
            if r["rc"] == 0 and os.path.exists(dot):
                txt = open(dot).read()
                labels = {int(m.group(1)): m.group(2) for m in re.finditer(r'^(\d+) \[label="(.*)"\];$', txt, re.M)}
                edges = [[runlib.P(labels.get(int(m.group(1)), "?" + m.group(1))), runlib.P(labels.get(int(m.group(2)), "?" + m.group(2)))] for m in re.finditer(r'^(\d+) -> (\d+)', txt, re.M)]
                a_recs.append({"ev": "edges", "config": cfg, "out": {"ok": True, "nodes": sorted(runlib.P(v) for v in labels.values()),
                                                                     "edges": sorted(edges)}, "via": "render"})
            else:
                a_recs.append({"ev": "edges", "config": cfg, "out": {"ok": False, "err": fx.err_type(r)[0] or "other", "nodes": [], "edges": []}, "via": "render"})
            # a render that cannot write anything must not report success
            r = fx.monorail(["target", "render", "-f", "/dev/full"], limit_as=2 << 30)
            if r["rc"] == 0:
                a_recs.append({"ev": "edges", "config": cfg, "out": {"ok": True, "nodes": [], "edges": []}, "via": "render_to_dev_full"})
            # output shapes as a function of the flags (Cli.tla; beyond the listed properties: drift notes only)
            if pid == "C03":
                def shape_analyze(cp_exists):
                    fl = {"changes": rng.random() < 0.5, "change_targets": rng.random() < 0.5, "target_groups": rng.random() < 0.3}
                    allf = rng.random() < 0.2
                    args = ["analyze"] + (["--all"] if allf else [x for k, x in (("changes", "--changes"), ("change_targets", "--change-targets"),
                                                                              ("target_groups", "--target-groups")) if fl[k]])
                    if allf:
                        fl = {"changes": True, "change_targets": True, "target_groups": True}
                    r = fx.monorail(args)
                    if r["rc"] == 0 and isinstance(r["out"], dict):
                        o = r["out"]
                        a_recs.append({"ev": "shape", "api": "analyze", "flags": fl, "keys": sorted(o.keys()),
                                       "change_has_targets": sorted({("targets" in c) for c in (o.get("changes") or [])}),
                                       "checkpointed": bool(o.get("checkpointed")), "cp_exists": cp_exists})
                shape_analyze(False)
                fl = {"target_groups": rng.random() < 0.4, "commands": rng.random() < 0.5, "argmaps": rng.random() < 0.5}
                r = fx.monorail(["target", "show"] + [x for k, x in (("target_groups", "-g"), ("commands", "--commands"), ("argmaps", "--argmaps")) if fl[k]])
                if r["rc"] == 0 and isinstance(r["out"], dict):
                    tl = r["out"].get("targets") or []
                    a_recs.append({"ev": "shape", "api": "target_show", "flags": fl, "keys": sorted(r["out"].keys()),
                                   "any_commands": any("commands" in t for t in tl), "any_argmaps": any("argmaps" in t for t in tl)})
                if fx.monorail(["checkpoint", "update"])["rc"] == 0:
                    with open(os.path.join(fx.repo, ts[0]["path"], "src.txt"), "a") as f:
                        f.write("edit\n")
                    shape_analyze(True)
                    shape_analyze(True)
                    fx.monorail(["checkpoint", "delete"])
            # run: all targets, and -t X --deps for one target
            for mode, named in (("all", []), ("targets_deps", [rng.choice(ts)["path"]])):
                fx.reset_helper()
                args = ["run", "-c", "build"] + (["-t"] + named + ["--deps"] if named else [])
                pre = {"targets": [], "groups": []}
                if mode == "all":
                    ra = fx.monorail(["analyze", "--target-groups"])
                    if ra["rc"] == 0 and ra["out"]:
                        pre = {"targets": [runlib.P(t) for t in ra["out"]["targets"]], "groups": [[runlib.P(t) for t in g] for g in ra["out"]["target_groups"]]}
                res = fx.monorail(args)
                evs = [{"k": e["k"], "c": 1, "t": runlib.P((e.get("id") or {}).get("target", "?")), "code": e.get("code", 0)}
                       for e in fx.events() if e["k"] in ("start", "end")]
                doc = runlib.doc_abs(res["out"], 1)
                base = {"cfg": cfg, "mode": mode, "named": [runlib.P(x) for x in named], "rc": res["rc"] if res["rc"] is not None else -9,
                        "events": evs, "label": "cli-sample-%d" % i}
                if doc["ok"]:
                    r_recs.append(dict(base, ev="run", pre=pre, ncmd=1, fou=False, kinds=[[1, runlib.P(t["path"]), "def"] for t in ts], doc=doc, timeout=False))
                else:
                    r_recs.append(dict(base, ev="reject", err=fx.err_type(res)[0] or "other"))
            return a_recs, r_recs
        finally:
            fx.cleanup()
    def empty():
        # the smallest configuration: no target at all (`"targets": []`, or the key left out) -- trivially acyclic, its
        # layering is the empty list of groups
        recs = []
        for variant in ("empty_list", "omitted"):
            fx = fixture.Fixture(bins, [])
            try:
                if variant == "omitted":
                    cfg = fx.config()
                    cfg.pop("targets", None)
                    fx.write_config(json.dumps(cfg))
                fx.git_init()
                for api, args in (("cli_analyze", ["analyze", "--target-groups"]), ("cli_target_show", ["target", "show", "-g"])):
                    r = fx.monorail(args)
                    if r["rc"] == 0 and isinstance(r["out"], dict) and r["out"].get("target_groups") is not None:
                        o = {"ok": True, "err": "", "groups": [sorted(runlib.P(x) for x in g) for g in r["out"]["target_groups"]]}
                    else:
                        o = {"ok": False, "err": fx.err_type(r)[0] or "other", "groups": []}
                    recs.append({"ev": "groups", "config": {"targets": []}, "roots": [], "pruned": False, "changed": [], "out": o, "via": api + "_" + variant})
            finally:
                fx.cleanup()
        return recs
    def slashed():
        # targets declared with a trailing slash and named by `uses` entries spelled the same way: a two-cycle, a cycle
        # through a nested target, and their acyclic twins
        recs = []
        cases = [[{"path": "lib/", "uses": ["app/"]}, {"path": "app/", "uses": ["lib/"]}, {"path": "docs"}],
                 [{"path": "lib/"}, {"path": "app/", "uses": ["lib/"]}, {"path": "docs", "uses": ["app/"]}],
                 [{"path": "app/", "uses": ["app/core/"]}, {"path": "app/core/"}, {"path": "tool", "uses": ["app/"]}],
                 [{"path": "tool/", "uses": ["svc/api/"]}, {"path": "svc/"}, {"path": "svc/api/", "uses": ["tool/"]}]]
        for k, ts in enumerate(cases):
            fx = fixture.Fixture(bins, [dict(t) for t in ts])
            try:
                fx.git_init()
                cfg = runlib.cfg_abs(ts)
                allr = sorted(runlib.P(t["path"]) for t in ts)
                for api, args in (("cli_analyze", ["analyze", "--target-groups"]), ("cli_target_show", ["target", "show", "-g"])):
                    r = fx.monorail(args)
                    if r["rc"] == 0 and isinstance(r["out"], dict) and r["out"].get("target_groups") is not None:
                        o = {"ok": True, "err": "", "groups": [sorted(runlib.P(x) for x in g) for g in r["out"]["target_groups"]]}
                    else:
                        o = {"ok": False, "err": fx.err_type(r)[0] or "other", "groups": []}
                    recs.append({"ev": "groups", "config": cfg, "roots": allr, "pruned": False, "changed": [], "out": o, "via": "%s_slashed_%d" % (api, k)})
            finally:
                fx.cleanup()
        return recs
    with ThreadPoolExecutor(max_workers=8) as ex:
        out = list(ex.map(one, range(n)))
    extra = (empty() if pid == "C03" else []) + (slashed() if pid in ("C03", "C09") else [])
    return [r for a, _ in out for r in a] + extra, [r for _, b in out for r in b]


def cli_c01_sample(bins, tier, seed):
    """C01 through the real command line, several questions in ONE repository: after a checkpoint, files are edited and
    removed, `analyze` is asked plainly and with --all, then the `uses` / `ignores` of the configuration are edited (with
    the same files changed) and it is asked again. The change list is taken from the --all answer of the same state (which
    changes git reports is C02's business); the mapping of those changes to targets is what is judged, and the plain
    answer must be the --all answer (presentations)."""
    import random
    from concurrent.futures import ThreadPoolExecutor
    import fixture, runlib
    n = {"quick": 10, "thorough": 120}[tier]
    dirs = ["app", "app2", "app-web", "lib", "lib/net", "shared/proto", "shared/docs", "tools"]
    def one(i):
        rng = random.Random(seed * 4099 + i)
        tpaths = rng.sample(["app", "app2", "app-web", "lib", "lib/net", "tools"], rng.randint(2, 5))
        def random_lists(tp):
            others = [d for d in dirs if d != tp and not d.startswith(tp + "/") and not tp.startswith(d + "/")]
            uses = [rng.choice(others) + rng.choice(["", "/f.txt", "/sub"]) for _ in range(rng.randint(0, 2))]
            uses = [u for u in uses if u.split("/")[0] not in tpaths or u.split("/")[0] > tp]     # keeps the graph acyclic
            ign = [rng.choice([tp + "/README.md", tp + "/gen", "shared/proto/f.txt", "shared/docs"]) for _ in range(rng.randint(0, 2))]
            return sorted(set(uses)), sorted(set(ign))
        ts = []
        for tp in tpaths:
            u, g = random_lists(tp)
            ts.append({"path": tp, "uses": u, "ignores": g})
        fx = fixture.Fixture(bins, ts, gitignore="Monorail.json\n" if i % 2 else "", sepgit=(i % 3 == 1),
                             via=("plain", "link", "dotdot")[i % 3], ignore_via=("tree", "info", "global")[(i // 2) % 3])
        recs = []
        try:
            for d in dirs:
                os.makedirs(os.path.join(fx.repo, d, "sub"), exist_ok=True)
                for fn in ("f.txt", "README.md", "sub/x.rs", "gen/out.bin"):
                    os.makedirs(os.path.dirname(os.path.join(fx.repo, d, fn)), exist_ok=True)
                    with open(os.path.join(fx.repo, d, fn), "w") as f:
                        f.write("v0\n")
            fx.git_init()
            if fx.monorail(["checkpoint", "update"])["rc"] != 0:
                raise vlib.ToolError("checkpoint update failed")
            def ask(step):
                # the plain question first: whatever an earlier invocation left behind is then still what it finds
                plain = fx.monorail(["analyze"])
                full = fx.monorail(["analyze", "--all"])
                cfg = runlib.cfg_abs(fx.targets)
                if full["rc"] != 0 or not isinstance(full["out"], dict):
                    recs.append({"ev": "analyze", "config": cfg, "changes": [], "out": {"ok": False, "err": fx.err_type(full)[0] or "other", "msg": ""}, "via": "cli", "step": step})
                    return
                o = full["out"]
                tv = o.get("targets") or []
                per = sorted(({"path": runlib.P(c["path"]), "targets": sorted(({"path": runlib.P(t["path"]), "reason": t["reason"]} for t in (c.get("targets") or [])),
                                                                             key=lambda x: json.dumps(x))} for c in (o.get("changes") or [])), key=lambda x: json.dumps(x))
                pres = [sorted(runlib.P(t) for t in ((plain["out"] or {}).get("targets") or []))] if plain["rc"] == 0 else [[["<error>", "plain analyze failed"]]]
                # what has changed since the checkpoint (= HEAD here), asked of git independently of monorail's own query
                st = fx.git("status", "--porcelain", "-z", "--untracked-files=all", "--no-renames")
                true_changes = sorted({e[3:] for e in st.split("\0") if len(e) > 3})
                recs.append({"ev": "analyze", "config": cfg, "changes": [runlib.P(c["path"]) for c in (o.get("changes") or [])],
                             "true_changes": [runlib.P(x) for x in true_changes],
                             "out": {"ok": True, "targets": sorted(runlib.P(t) for t in tv), "strictly_sorted": all(tv[k].encode() < tv[k + 1].encode() for k in range(len(tv) - 1)),
                                     "per_change": per, "singles": [], "pairs": [], "presentations": pres}, "via": "cli", "step": step})
            # edits: modify, create, remove (a removed file, and a removed directory that a uses / ignores entry names)
            for d in rng.sample(dirs, rng.randint(2, 4)):
                with open(os.path.join(fx.repo, d, rng.choice(["f.txt", "README.md", "sub/x.rs"])), "a") as f:
                    f.write("edit\n")
            if rng.random() < 0.6:
                shutil.rmtree(os.path.join(fx.repo, rng.choice(dirs), "gen"), ignore_errors=True)
            if rng.random() < 0.4:
                os.remove(os.path.join(fx.repo, rng.choice(["shared/proto", "shared/docs"]), "f.txt"))
            # files rewritten with the content they already have (new modification time, same bytes) have not changed
            for d in rng.sample(dirs, rng.randint(1, 3)):
                fp = os.path.join(fx.repo, d, rng.choice(["f.txt", "README.md", "sub/x.rs"]))
                if os.path.exists(fp):
                    data = open(fp, "rb").read()
                    with open(fp, "wb") as f:
                        f.write(data)
                    os.utime(fp, (time.time() + 7, time.time() + 7))
            ask(0)
            for step in (1, 2):
                # the configuration changes, the changed files stay the same
                for t in fx.targets:
                    if rng.random() < 0.7:
                        t["uses"], t["ignores"] = random_lists(t["path"])
                fx.write_config()
                ask(step)
            return recs
        finally:
            fx.cleanup()
    with ThreadPoolExecutor(max_workers=8) as ex:
        out = list(ex.map(one, range(n)))
    return [r for rs in out for r in rs]


def run(pid, tier):
    level = "model_checking"
    chk = vlib.Check(pid, tier, level)
    bins = vlib.build()
    kind = KINDS[pid]
    tmp = tempfile.mkdtemp(prefix="verif-a-")
    try:
        records = []
        evals = 0
        # ---- specification level: enumerate, check laws, emit
        scope = "E1" if tier == "quick" else "E1b"
        cases = mc_targets(chk, scope)
        # plus every configuration over the three-level nesting chain
        cases += mc_targets(chk, "N3" if tier == "quick" else "N3b")
        extra_cases = []
        if tier == "thorough" and kind != "groups":
            # three targets with two uses entries: a deterministic eighth of the 1.3 M configurations of scope E2,
            # each under one naming scheme (rotating) and every declaration order
            extra_cases = mc_targets(chk, "E2s")
        cases_path = os.path.join(tmp, "cases.ndjson")
        with open(cases_path, "w") as f:
            for c in cases:
                f.write((c if isinstance(c, str) else json.dumps(c)) + "\n")
        # ---- spec -> impl: every enumerated configuration through the real code
        # quick: each configuration under 2 of the 5 naming schemes (1 for the record-heavy grouping checks), rotating
        rotate = ("1" if kind == "groups" else "2") if tier == "quick" else "0"
        st = vinproc(bins, ["cfgcases", "--cases", cases_path, "--out", os.path.join(tmp, "o1"), "--fixtures",
                            os.path.join(tmp, "fx"), "--kinds", kind, "--threads", str(vlib.NCPU),
                            "--seed", str(chk.seed), "--rotate", rotate])
        evals += st["evaluations"]
        records += read_records(os.path.join(tmp, "o1", kind + ".ndjson"))
        if extra_cases:
            ep = os.path.join(tmp, "cases2.ndjson")
            with open(ep, "w") as f:
                for c in extra_cases:
                    f.write((c if isinstance(c, str) else json.dumps(c)) + "\n")
            st = vinproc(bins, ["cfgcases", "--cases", ep, "--out", os.path.join(tmp, "o1b"), "--fixtures", os.path.join(tmp, "fxb"),
                                "--kinds", kind, "--threads", str(vlib.NCPU), "--seed", str(chk.seed), "--rotate", "1"])
            evals += st["evaluations"]
            records += read_records(os.path.join(tmp, "o1b", kind + ".ndjson"))
            cases = cases + extra_cases
        n_enum = len(records)
        # ---- independent randomized driver: large configurations
        count = 120 if tier == "quick" else 1200
        st = vinproc(bins, ["cfgrandom", "--out", os.path.join(tmp, "o2"), "--fixtures", os.path.join(tmp, "fr"),
                            "--kinds", kind, "--seed", str(chk.seed), "--count", str(count),
                            "--max-targets", "14" if tier == "quick" else "24"])
        evals += st["evaluations"]
        records += read_records(os.path.join(tmp, "o2", kind + ".ndjson"))
        # ---- bare graph level for the grouping properties
        if pid in ("C03", "C09"):
            dcases = mc_dag(chk, 4, emit=True)
            dpath = os.path.join(tmp, "dag.ndjson")
            with open(dpath, "w") as f:
                for c in dcases:
                    f.write(json.dumps(c) + "\n")
            st = vinproc(bins, ["dagcases", "--cases", dpath, "--out", os.path.join(tmp, "dagrec.ndjson"),
                                "--seed", str(chk.seed)])
            evals += st["evaluations"]
            records += read_records(os.path.join(tmp, "dagrec.ndjson"))
            st = vinproc(bins, ["dagrandom", "--out", os.path.join(tmp, "dagrnd.ndjson"), "--seed", str(chk.seed),
                                "--count", "600" if tier == "quick" else "20000"])
            evals += st["evaluations"]
            records += read_records(os.path.join(tmp, "dagrnd.ndjson"))
            # hundreds of nodes with high fan-in (parallel or size-dependent code paths), judged through a certificate
            st = vinproc(bins, ["dagbig", "--out", os.path.join(tmp, "dagbig.ndjson"), "--seed", str(chk.seed),
                                "--count", "4" if tier == "quick" else "24"])
            evals += st["evaluations"]
            big_records = read_records(os.path.join(tmp, "dagbig.ndjson"))
            if tier == "thorough":
                mc_dag(chk, 5, emit=False)
        if pid in ("C03", "C09"):
            bf, st3, tr3 = vlib.judge("JudgeA", big_records, shards=min(4, max(1, len(big_records))), xmx="6g")
            chk.cov["states"] += st3
            chk.cov["transitions"] += tr3
            chk.cov["large_graph_records"] = len(big_records)
            big_fails = bf
        else:
            big_fails = []
        if pid == "C01":
            c01 = cli_c01_sample(bins, tier, chk.seed)
            chk.cov["cli_records"] = len(c01)
            records += c01
        # ---- the same through the real CLI (target render / analyze / target show / run)
        run_fails = []
        if pid in ("C03", "C09", "C10"):
            a_recs, r_recs = cli_sample(bins, pid, tier, chk.seed)
            keep = {"C10": ("edges",), "C03": ("groups",), "C09": ("groups",)}[pid]
            cli = [r for r in a_recs if r["ev"] in keep]
            records += cli
            shapes = [r for r in a_recs if r["ev"] == "shape"]
            if shapes:
                sf, _, _ = vlib.judge("JudgeA", shapes, shards=1)
                chk.cov["cli_output_shapes_judged"] = len(shapes)
                if sf:
                    chk.notes.append({"MODEL-DRIFT": "%d command-line outputs do not have the shape Cli.tla gives for their flags" % len(sf),
                                      "first": sf[0][0], "why": sf[0][1]})
                    print("NOTE: MODEL-DRIFT output shape: %s" % sf[0][1])
            chk.cov["cli_records"] = len(cli) + (len(r_recs) if pid != "C10" else 0)
            if pid != "C10":
                rf, st2, tr2 = vlib.judge("RunJudge", r_recs, shards=2)
                chk.cov["states"] += st2
                chk.cov["transitions"] += tr2
                for rec, whys in rf:
                    for why in (whys if isinstance(whys, list) else [whys]):
                        if why.startswith(pid + ":"):
                            run_fails.append((rec, why))
        # ---- impl -> spec: TLC judges every record
        # (the thorough tier judges several hundred thousand records: hours of TLC time in total, spread over the shards)
        fails, st_, tr_ = vlib.judge("JudgeA", records, shards=min(vlib.NCPU, max(1, len(records) // 1500)),
                                     timeout=900 if tier == "quick" else 10800)
        chk.cov["states"] += st_
        chk.cov["transitions"] += tr_
        chk.cov["traces_validated_against_impl"] = len(records)
        chk.cov["evaluations"] = evals
        chk.cov["enumerated_configurations"] = len(cases)
        chk.cov["records_from_enumeration"] = n_enum
        chk.cov["distinct_nontrivial"] = sum(1 for r in records if nontrivial(pid, as_dict(r)))
        chk.cov["exhaustive"] = True
        chk.cov["rule"] = ("every configuration of scope %s (TLC-enumerated) under naming schemes with prefix-sharing "
                           "names and every declaration order, plus seeded random large configurations; records are "
                           "deduplicated per (configuration, abstract answer); non-trivial = %s") % (
            scope, {"C01": "some change reaches a target through `uses` or is ignored",
                    "C10": "the implementation reported at least one edge",
                    "C03": "at least two groups returned",
                    "C09": "rejected with a graph error"}[pid])
        wanted = WHY_CLASS[pid]
        for rec, why in fails:
            if wanted is None or why in wanted:
                chk.violation(why, why, rec)
        for rec, why in run_fails:
            chk.violation(why, "%s [%s]" % (why, rec.get("label")), rec)
        for rec, why in big_fails:
            if wanted is None or why in wanted:
                chk.violation(why, "%s [graph of %d nodes]" % (why, len(rec["adj"])), {"ev": "dag_big", "nodes": len(rec["adj"]), "out": rec["out"] if not rec["out"]["ok"] else "(groups omitted)"})
        nsamp = 0
        for r in records:
            if nsamp >= 3:
                break
            d = as_dict(r)
            if nontrivial(pid, d):
                chk.sample(trim(d), limit=3)
                nsamp += 1
        chk.assumptions += [
            "the in-process wrappers in src/verif.rs call core::Index::new / app::analyze::analyze / Dag unchanged",
            "byte-order sortedness of concrete strings is computed by the harness and asserted by the judge",
            "naming schemes: plain, app/app2/app-web, a/ab/a-, lib2/lib/li, names with spaces and non-ASCII",
        ]
        return chk.finish()
    finally:
        shutil.rmtree(tmp, ignore_errors=True)


def replay(pid, path):
    """Re-judge a stored record (the implementation's answer is re-derived by `run` on the same seed;
    here the recorded answer is re-validated against the current specification)."""
    obj = json.load(open(path))
    rec = obj["replay"]
    fails, _, _ = vlib.judge("JudgeA", [rec], shards=1)
    for r, why in fails:
        print("REPLAY: record still rejected: %s" % why)
        print("VIOLATION property=%s replay=%s" % (pid, path))
        return 1
    print("REPLAY: record accepted by the specification")
    return 0
