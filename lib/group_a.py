"""C01, C10, C03, C09: configuration semantics (Targets.tla, Dag.tla) bound to core::Index,
core::graph::Dag and app::analyze through the in-process hooks, judged by TLC (JudgeA.tla)."""
import json, os, shutil, subprocess, tempfile, time
import vlib

SCOPES = {
    "E1": dict(MaxT=2, MaxU=1, MaxI=1, shards=8),      # 16 681 configurations
    "E1b": dict(MaxT=2, MaxU=2, MaxI=1, shards=12),    # adds two-uses chains (cycles via uses)
    "E2": dict(MaxT=3, MaxU=2, MaxI=1, shards=16),     # 1 302 000 configurations
}

WHY_CLASS = {
    "C01": None,   # all analyze reasons
    "C10": None,   # all edges reasons
    "C03": {"acyclic configuration rejected", "groups are not a valid layering of the requested targets",
            "duplicate inside a group", "acyclic graph rejected",
            "groups are not a valid layering of the closure of the roots"},
    "C09": {"groups returned for a cyclic configuration", "cyclic configuration rejected with a non-graph error",
            "groups returned for a cyclic graph", "cyclic graph rejected with a non-graph error"},
}
KINDS = {"C01": "analyze", "C10": "edges", "C03": "groups", "C09": "groups"}


def targets_cfg(scope, shard, emit=True, laws=True):
    s = SCOPES[scope]
    inv = " ".join((["Laws"] if laws else []) + ["Emit"])
    return ("CONSTANTS MaxT = %d\n MaxU = %d\n MaxI = %d\n Shard = %d\n NShards = %d\n EmitCases = %s\n"
            "SPECIFICATION Spec\nINVARIANTS %s\nCHECK_DEADLOCK FALSE\n"
            % (s["MaxT"], s["MaxU"], s["MaxI"], shard, s["shards"], "TRUE" if emit else "FALSE", inv))


def mc_targets(chk, scope, laws=True):
    """Enumerate every configuration of the scope in TLC, check the laws, return the cases."""
    n = SCOPES[scope]["shards"]
    jobs = [dict(module="mc/MCTargets", cfg_text=targets_cfg(scope, i, True, laws), workers=1, timeout=1800, xmx="3g")
            for i in range(n)]
    results = vlib.tlc_parallel(jobs, max_parallel=min(n, vlib.NCPU))
    cases = []
    for r in results:
        if r.violated:
            chk.model_violation("MCTargets/" + scope, r)
        vlib.require_ok(r, "MCTargets " + scope)
        chk.add_model("MCTargets", r, scope)
        cases.extend(r.printed("CASE"))
    if not cases:
        raise vlib.ToolError("MCTargets emitted no cases")
    return cases


def mc_dag(chk, n, emit=True):
    cfg = ("CONSTANTS N = %d\n EmitCases = %s\nSPECIFICATION Spec\nINVARIANTS KahnCorrect LatestPlacement Emit\n"
           "CHECK_DEADLOCK FALSE\n" % (n, "TRUE" if emit else "FALSE"))
    r = vlib.tlc("mc/MCDag", cfg, workers=8 if n >= 5 else 4, timeout=3000, xmx="8g")
    if r.violated:
        chk.model_violation("MCDag", r)
    vlib.require_ok(r, "MCDag N=%d" % n)
    chk.add_model("MCDag", r, "N=%d" % n)
    return r.printed("CASE") if emit else []


def vinproc(bins, args):
    p = subprocess.run([bins["vinproc"]] + args, stdout=subprocess.PIPE, stderr=subprocess.PIPE, text=True)
    if p.returncode != 0:
        raise vlib.ToolError("vinproc %s failed: %s" % (args[0], p.stderr[-2000:]))
    return json.loads(p.stdout.strip().splitlines()[-1])


def read_records(path):
    if not os.path.exists(path):
        return []
    with open(path) as f:
        return [json.loads(l) for l in f]


def nontrivial(pid, r):
    if r["ev"] == "analyze":
        pcs = r["out"].get("per_change", [])
        return any(t["reason"] in ("uses", "ignores") for e in pcs for t in e["targets"])
    if r["ev"] == "edges":
        return len(r["out"].get("edges", [])) > 0
    if r["ev"] in ("groups", "dag"):
        if pid == "C09":
            return (not r["out"]["ok"]) and r["out"].get("err") == "graph"
        return r["out"]["ok"] and len(r["out"]["groups"]) >= 2
    return False


def trim(r):
    r = json.loads(json.dumps(r))
    o = r.get("out", {})
    for k in ("singles", "presentations"):
        if k in o:
            o[k] = "(%d entries)" % len(o[k])
    return r


def run(pid, tier):
    level = "model_checking"
    chk = vlib.Check(pid, tier, level)
    bins = vlib.build()
    kind = KINDS[pid]
    tmp = tempfile.mkdtemp(prefix="verif-a-")
    try:
        records = []
        evals = 0
        # ---- specification level: enumerate, check laws, emit
        scope = "E1" if tier == "quick" else "E1b"
        cases = mc_targets(chk, scope)
        cases_path = os.path.join(tmp, "cases.ndjson")
        with open(cases_path, "w") as f:
            for c in cases:
                f.write(json.dumps(c) + "\n")
        # ---- spec -> impl: every enumerated configuration through the real code
        rotate = "2" if tier == "quick" else "0"
        st = vinproc(bins, ["cfgcases", "--cases", cases_path, "--out", os.path.join(tmp, "o1"), "--fixtures",
                            os.path.join(tmp, "fx"), "--kinds", kind, "--threads", str(vlib.NCPU),
                            "--seed", str(chk.seed), "--rotate", rotate])
        evals += st["evaluations"]
        records += read_records(os.path.join(tmp, "o1", kind + ".ndjson"))
        n_enum = len(records)
        # ---- independent randomized driver: large configurations
        count = 120 if tier == "quick" else 1200
        st = vinproc(bins, ["cfgrandom", "--out", os.path.join(tmp, "o2"), "--fixtures", os.path.join(tmp, "fr"),
                            "--kinds", kind, "--seed", str(chk.seed), "--count", str(count),
                            "--max-targets", "14" if tier == "quick" else "24"])
        evals += st["evaluations"]
        records += read_records(os.path.join(tmp, "o2", kind + ".ndjson"))
        # ---- bare graph level for the grouping properties
        if pid in ("C03", "C09"):
            dcases = mc_dag(chk, 4, emit=True)
            dpath = os.path.join(tmp, "dag.ndjson")
            with open(dpath, "w") as f:
                for c in dcases:
                    f.write(json.dumps(c) + "\n")
            st = vinproc(bins, ["dagcases", "--cases", dpath, "--out", os.path.join(tmp, "dagrec.ndjson"),
                                "--seed", str(chk.seed)])
            evals += st["evaluations"]
            records += read_records(os.path.join(tmp, "dagrec.ndjson"))
            st = vinproc(bins, ["dagrandom", "--out", os.path.join(tmp, "dagrnd.ndjson"), "--seed", str(chk.seed),
                                "--count", "600" if tier == "quick" else "20000"])
            evals += st["evaluations"]
            records += read_records(os.path.join(tmp, "dagrnd.ndjson"))
            if tier == "thorough":
                mc_dag(chk, 5, emit=False)
        # ---- impl -> spec: TLC judges every record
        fails, st_, tr_ = vlib.judge("JudgeA", records, shards=min(vlib.NCPU, max(1, len(records) // 1500)))
        chk.cov["states"] += st_
        chk.cov["transitions"] += tr_
        chk.cov["traces_validated_against_impl"] = len(records)
        chk.cov["evaluations"] = evals
        chk.cov["enumerated_configurations"] = len(cases)
        chk.cov["records_from_enumeration"] = n_enum
        chk.cov["distinct_nontrivial"] = sum(1 for r in records if nontrivial(pid, r))
        chk.cov["exhaustive"] = True
        chk.cov["rule"] = ("every configuration of scope %s (TLC-enumerated) under naming schemes with prefix-sharing "
                           "names and every declaration order, plus seeded random large configurations; records are "
                           "deduplicated per (configuration, abstract answer); non-trivial = %s") % (
            scope, {"C01": "some change reaches a target through `uses` or is ignored",
                    "C10": "the implementation reported at least one edge",
                    "C03": "at least two groups returned",
                    "C09": "rejected with a graph error"}[pid])
        wanted = WHY_CLASS[pid]
        for rec, why in fails:
            if wanted is None or why in wanted:
                chk.violation(why, why, rec)
        for r in records:
            if nontrivial(pid, r):
                chk.sample(trim(r), limit=3)
        chk.assumptions += [
            "the in-process wrappers in src/verif.rs call core::Index::new / app::analyze::analyze / Dag unchanged",
            "byte-order sortedness of concrete strings is computed by the harness and asserted by the judge",
            "naming schemes: plain, app/app2/app-web, a/ab/a-, lib2/lib/li, names with spaces and non-ASCII",
        ]
        return chk.finish()
    finally:
        shutil.rmtree(tmp, ignore_errors=True)


def replay(pid, path):
    """Re-judge a stored record (the implementation's answer is re-derived by `run` on the same seed;
    here the recorded answer is re-validated against the current specification)."""
    obj = json.load(open(path))
    rec = obj["replay"]
    fails, _, _ = vlib.judge("JudgeA", [rec], shards=1)
    for r, why in fails:
        print("REPLAY: record still rejected: %s" % why)
        print("VIOLATION property=%s replay=%s" % (pid, path))
        return 1
    print("REPLAY: record accepted by the specification")
    return 0
