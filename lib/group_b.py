"""C04, C05, C06, C16: the run scheduler. RunImpl.tla is model-checked against RunRules.tla for every
small plan; TLC-generated behaviours (plan + exit order + exit codes) and independent random scenarios
are forced onto the real binary with scripted helper executables; RunJudge.tla (TLC) judges every
recorded run."""
import json, os, random, time
from concurrent.futures import ThreadPoolExecutor
import vlib, runlib

TAGS = {"C04": "C04:", "C05": "C05:", "C06": "C06:", "C16": "C16:"}


def mcrun_cfg(nt, nc, kinds, fous, serial, emit, tolerate=True, canfail=True, barrier=False, props=True):
    return ("CONSTANTS NT = %d\n NC = %d\n Kinds = {%s}\n Fous = {%s}\n WithSerial = %s\n EmitBehaviours = %s\n"
            " TolerateClosed = %s\n CanFail = %s\n BarrierMode = %s\n PlanSet <- MCPlanSet\n"
            "SPECIFICATION Spec\nVIEW View\nINVARIANTS TypeOK FinishTruthful NoFatal Emit\n%s"
            "CHECK_DEADLOCK FALSE\n") % (
        nt, nc, ", ".join('"%s"' % k for k in kinds), ", ".join(fous), "TRUE" if serial else "FALSE",
        "TRUE" if emit else "FALSE", "TRUE" if tolerate else "FALSE", "TRUE" if canfail else "FALSE",
        "TRUE" if barrier else "FALSE", "PROPERTIES StartsAllowed Terminates\n" if props else "")


def model_check(chk, pid, tier):
    """Exhaustive model checking of the process_plan-shaped model against the property-level rules."""
    jobs = []
    if pid == "C16":
        # barrier mode: a child exits only when its whole group has started; termination = C16 on the design
        jobs.append(("NT=4 NC=1 barrier", mcrun_cfg(4, 1, ["def"], ["FALSE"], False, False, canfail=False, barrier=True)))
        if tier == "thorough":
            jobs.append(("NT=5 NC=2 barrier", mcrun_cfg(5, 2, ["def"], ["FALSE"], False, False, canfail=False, barrier=True)))
    else:
        jobs.append(("NT=3 NC=1 all kinds + serial", mcrun_cfg(3, 1, ["def", "undef", "noexec"], ["TRUE", "FALSE"], True, False)))
        jobs.append(("NT=4 NC=1 def only", mcrun_cfg(4, 1, ["def"], ["FALSE"], False, False)))
        if tier == "thorough":
            jobs.append(("NT=3 NC=2 all kinds", mcrun_cfg(3, 2, ["def", "undef", "noexec"], ["TRUE", "FALSE"], False, False)))
            jobs.append(("NT=4 NC=2 def/undef", mcrun_cfg(4, 2, ["def", "undef"], ["TRUE"], False, False)))
    for name, cfg in jobs:
        r = vlib.tlc("mc/MCRun", cfg, workers=8, timeout=3000, xmx="12g")
        if r.violated:
            chk.model_violation("MCRun " + name, r)
        vlib.require_ok(r, "MCRun " + name)
        chk.add_model("MCRun/RunImpl", r, name)


def behaviours(chk, tier, seed, pid):
    """Random behaviours of the model (TLC simulation), printed at termination."""
    n = 250 if tier == "quick" else 3000
    out = []
    for nt, nc, kinds, serial in ((3, 2, ["def", "undef", "noexec"], True), (4, 1, ["def", "undef", "noexec"], False)):
        cfg = mcrun_cfg(nt, nc, kinds, ["TRUE", "FALSE"], serial, True, props=False).replace("VIEW View\n", "")
        r = vlib.tlc("mc/MCRun", cfg, workers=1, timeout=600, simulate="num=%d" % n, extra=["-depth", "200", "-seed", str(seed)])
        behs = r.printed("BEH")
        if not behs:
            raise vlib.ToolError("simulation emitted no behaviours: " + r.out[-1500:])
        out += behs
    # distinct behaviours only
    seen, uniq = set(), []
    for b in out:
        k = json.dumps(b, sort_keys=True)
        if k not in seen:
            seen.add(k)
            uniq.append(b)
    return uniq


def pick_for(pid, behs, limit, rng):
    """Behaviours relevant for the property first (the judge still sees whole runs)."""
    def score(b):
        fails = sum(1 for e in b["exits"] if e[2] != 0) + sum(1 for k in b["kinds"] if k[2] != "def")
        multi = len([g for g in b["groups"] if len(g) > 1])
        if pid == "C06":
            return (fails > 0, multi)
        if pid == "C04":
            return (len(b["groups"]) > 1 and b["mode"] == "graph", b["ncmd"] > 1)
        return (b["mode"] == "serial" or fails > 0, multi)
    rng.shuffle(behs)
    behs.sort(key=score, reverse=True)
    good = behs[: limit * 2 // 3]
    rest = behs[limit * 2 // 3:]
    rng.shuffle(rest)
    return good + rest[: limit - len(good)]


def run_all(bins, scenarios, workers=12):
    def one(sc):
        try:
            return runlib.run_scenario(bins, sc)
        except vlib.ToolError as e:
            return None, {"tool_error": str(e)}
    with ThreadPoolExecutor(max_workers=workers) as ex:
        return list(ex.map(one, scenarios))


def run(pid, tier):
    chk = vlib.Check(pid, tier, "model_checking")
    bins = vlib.build()
    rng = random.Random(chk.seed)
    model_check(chk, pid, tier)
    scenarios = []
    if pid == "C16":
        sizes = [2, 3, 5, 8, 13, 24, 40] if tier == "quick" else [2, 3, 4, 5, 6, 8, 10, 13, 16, 20, 24, 32, 40, 48]
        for i, s in enumerate(sizes):
            for pos in (["first", "middle", "last"] if tier == "thorough" else [["first", "middle", "last"][i % 3]]):
                scenarios.append(runlib.barrier_scenario(s, pos, chk.seed))
        if tier == "quick":
            scenarios.append(runlib.barrier_scenario(6, "first", chk.seed))
            scenarios.append(runlib.barrier_scenario(6, "last", chk.seed))
        # a log listener attached to the run must not serialise the group either
        for s, pos in ((4, "first"), (12, "middle")):
            sc = runlib.barrier_scenario(s, pos, chk.seed)
            sc["listener"] = True
            sc["label"] += "-listener"
            scenarios.append(sc)
        # the same group reached through other selection modes: every target named explicitly with --deps (the closure
        # adds nothing), only the last target named with --deps (the closure pulls the members in), changed targets
        for s, pos, how in ((3, "middle", "all_named"), (7, "first", "all_named"), (5, "middle", "last_named"), (4, "first", "changed")):
            sc = runlib.barrier_scenario(s, pos, chk.seed)
            paths = [t["path"] for t in sc["targets"]]
            if how == "all_named":
                sc["mode"], sc["named"] = "targets_deps", list(paths)
            elif how == "last_named":
                sc["mode"], sc["named"] = "targets_deps", [paths[-1]]
            else:
                sc["mode"], sc["edits"] = "changed", [p + "/src.txt" for p in paths]
            sc["label"] += "-" + how
            scenarios.append(sc)
        # very wide groups (beyond any internal batch or cap of a few dozen), and a group under a small descriptor limit
        for w in ([150] if tier == "quick" else [129, 150, 257]):
            scenarios.append(runlib.wide_scenario(w, chk.seed, barrier=True))
        for s_, pos in ((3, "first"), (6, "middle")):
            scenarios.append(runlib.barrier_scenario(s_, pos, chk.seed, chatty=True))
        sc = runlib.barrier_scenario(30, "middle", chk.seed)
        sc["prlimit"] = ["--nofile=256:256"]
        sc["label"] += "-nofile256"
        scenarios.append(sc)
        for s_, pos in ((3, "last"), (5, "first")):
            scenarios.append(runlib.barrier_scenario(s_, pos, chk.seed, linked=True))
        scenarios.append(runlib.barrier_scenario(4, "middle", chk.seed, twice=True))
        scenarios.append(runlib.barrier_scenario(5, "first", chk.seed, deps_arg=True))
        # a SIGPIPE reaches monorail while it is starting the members of a group (a reader of its output went away, or the
        # signal was simply sent): the group is started all the same
        for s_ in ((120,) if tier == "quick" else (120, 60, 200)):
            sc = runlib.barrier_scenario(s_, "first", chk.seed)
            sc["interrupt"] = {"sig": 13, "after_started": 1, "delay_s": 0.0, "release_after_s": 0.1}
            for steps in sc["scripts"].values():
                for st in steps:
                    if st.get("op") == "wait":
                        st["timeout_ms"] = 9000     # members that wait in vain say so within the time the driver watches
            sc["straggler_wait"] = 14.0
            sc["label"] += "-sigpipe"
            scenarios.append(sc)
        # members sharing one executable file (common command directory)
        for s, pos in ((2, "first"), (4, "middle"), (9, "last")) + (((17, "middle"), (33, "first")) if tier == "thorough" else ()):
            scenarios.append(runlib.barrier_scenario(s, pos, chk.seed, shared=True))
    else:
        behs = behaviours(chk, tier, chk.seed, pid)
        nb = 45 if tier == "quick" else 900
        for i, b in enumerate(pick_for(pid, behs, nb, rng)):
            # C06 quantifies over delays of the run's own bookkeeping and over children that outlive a failure
            variant = (i % 3) if pid == "C06" else (1 if i % 7 == 3 else 0)
            scenarios.append(runlib.scenario_from_behaviour(b, i, rng, variant))
        if pid == "C04":
            scenarios.append(runlib.wide_slow_scenario(520, chk.seed))
            scenarios.append(runlib.detached_output_scenario(chk.seed))
            if tier == "thorough":
                scenarios.append(runlib.detached_output_scenario(chk.seed + 1, 4200))
        if pid in ("C04", "C05"):
            # monorail itself is sent a termination signal while a group is executing
            for k, (n, sg) in enumerate([(1, 15), (2, 2), (3, 1)] + ([(2, 15), (4, 1), (1, 2)] if tier == "thorough" else [])):
                scenarios.append(runlib.interrupted_scenario(n, chk.seed * 41 + k, sg))
        # a command listed more than once (directly, through overlapping sequences, through a sequence and --commands)
        for k, (how, fs) in enumerate([("commands", False), ("sequences", pid == "C06"), ("sequence_and_commands", pid != "C05")]):
            scenarios.append(runlib.repeated_commands_scenario(chk.seed * 43 + k, how, fs))
        if pid == "C05":
            # one command directory shared by targets of which only one defines the command (by an explicit path)
            for k in range(4 if tier == "quick" else 24):
                scenarios.append(runlib.shared_dir_definitions_scenario(chk.seed * 47 + k, "all" if k % 2 == 0 else "targets"))
            # very wide groups: the run's grouping must still be analyze's grouping, every member started once
            scenarios.append(runlib.wide_scenario(150, chk.seed, mode="all"))
            scenarios.append(runlib.wide_scenario(131, chk.seed + 1, mode="changed"))
            if tier == "thorough":
                scenarios.append(runlib.wide_scenario(300, chk.seed + 2, mode="all"))
                scenarios.append(runlib.wide_scenario(129, chk.seed + 3, fail_at=3, mode="all"))
        if pid == "C06":
            scenarios.append(runlib.wide_scenario(140, chk.seed, fail_at=5, mode="all"))
            scenarios.append(runlib.background_process_scenario(chk.seed))
            scenarios.append(runlib.chmod_scenario(chk.seed))
            scenarios.append(runlib.listener_killed_scenario(chk.seed))
            scenarios.append(runlib.linked_noexec_scenario(chk.seed))
            scenarios.append(runlib.linked_noexec_scenario(chk.seed + 1, cmd_dir=True))
        if pid == "C06":
            # every member of a group has exited (one of them non-zero) before the run joins any of them
            for k, (n, ff) in enumerate([(1, True), (2, True), (3, False), (1, False)] + ([(5, True), (8, False), (2, False), (4, True)] if tier == "thorough" else [])):
                scenarios.append(runlib.late_success_scenario(n, chk.seed * 31 + k, ff))
            # the failing member dies of a signal instead of exiting
            for k, (n, ff, sg) in enumerate([(2, True, 9), (1, False, 15)] + ([(3, True, 1), (2, False, 2)] if tier == "thorough" else [])):
                scenarios.append(runlib.late_success_scenario(n, chk.seed * 37 + k, ff, sig=sg))
        nr = 25 if tier == "quick" else 500
        for i in range(nr):
            fp = {"C06": 0.8, "C04": 0.15, "C05": 0.4}[pid]
            scenarios.append(runlib.random_scenario(chk.seed * 100000 + i, fail_prob=fp))
    # a few scenarios also record the internal hook events for validation against RunImpl (model binding)
    if pid != "C16":
        for sc in scenarios[:: max(1, len(scenarios) // (10 if tier == "quick" else 120))]:
            if sc["mode"] != "changed" and not sc.get("trust"):
                sc["hook_trace"] = True
    results = run_all(bins, scenarios, workers=6 if pid == "C16" else 12)
    records, tool_errors = [], 0
    for rec, dbg in results:
        if rec is None:
            tool_errors += 1
            vlib.log("scenario tool error:", dbg)
            continue
        if rec.get("timeout") and pid != "C16":
            # a time-out is a violation only for C16, where non-termination is the property
            tool_errors += 1
            vlib.log("scenario timed out:", rec.get("label"))
            continue
        rec["stderr_tail"] = dbg.get("stderr", "")[-300:]
        records.append(rec)
    # ---- internal traces against the implementation-shaped model (MODEL-DRIFT, never a violation)
    traces = [runlib.impl_trace(rec, dbg) for rec, dbg in results if rec is not None and dbg.get("hooks")]
    traces = [t for t in traces if t]
    if traces:
        import tempfile, shutil, os as _os
        tmp = tempfile.mkdtemp(prefix="impltrace-")
        jobs = []
        for i, t in enumerate(traces):
            pth = _os.path.join(tmp, "t%d.ndjson" % i)
            with open(pth, "w") as f:
                for e in t:
                    f.write(json.dumps(e) + "\n")
            cfg = ("CONSTANTS PlanSet <- TracePlanSet\n TolerateClosed = TRUE\n CanFail = TRUE\n BarrierMode = FALSE\n"
                   "SPECIFICATION TSpec\nINVARIANT NotAccepted\nCHECK_DEADLOCK FALSE\n")
            jobs.append(dict(module="trace/RunImplTrace", cfg_text=cfg, workers=1, timeout=300, env={"TRACE": pth}, xmx="2g", deque=True))
        # this validation only ever yields a MODEL-DRIFT note: a search that does not finish in time is recorded as
        # "not validated", never as a failure of the check
        from concurrent.futures import ThreadPoolExecutor as _TPE
        def _safe(j):
            try:
                return vlib.tlc(**j)
            except vlib.ToolError:
                return None
        with _TPE(max_workers=8) as _ex:
            res_all = list(_ex.map(_safe, jobs))
        shutil.rmtree(tmp, ignore_errors=True)
        timed_out = sum(1 for r in res_all if r is None)
        traces = [t for t, r in zip(traces, res_all) if r is not None]
        res = [r for r in res_all if r is not None]
        if timed_out:
            chk.cov["internal_traces_not_validated_in_time"] = timed_out
        accepted = sum(1 for r in res if "NotAccepted" in r.violated)
        drift = [traces[i][0] for i, r in enumerate(res) if "NotAccepted" not in r.violated]
        for r in res:
            chk.cov["states"] += r.distinct
            chk.cov["transitions"] += r.generated
        chk.cov["internal_traces_validated_against_RunImpl"] = len(traces)
        chk.cov["internal_traces_accepted"] = accepted
        if drift:
            chk.notes.append({"MODEL-DRIFT": "%d internal hook traces are not behaviours of RunImpl" % len(drift), "first_plan": drift[0]})
    if tool_errors > len(scenarios) // 4:
        raise vlib.ToolError("%d of %d scenarios could not be driven" % (tool_errors, len(scenarios)))
    for r in records:
        if r.get("timeout"):
            r["events"].append({"k": "barrier_timeout", "c": 1, "t": ["<run timed out>"], "code": 0})
    fails, st, tr = vlib.judge("RunJudge", [{k: v for k, v in r.items() if not k.startswith("_")} for r in records],
                               shards=min(8, max(1, len(records) // 8)))
    chk.cov["states"] += st
    chk.cov["transitions"] += tr
    chk.cov["traces_validated_against_impl"] = len(records)
    chk.cov["evaluations"] = len(scenarios)
    def nontriv(r):
        n_start = sum(1 for e in r["events"] if e["k"] == "start")
        if pid == "C06":
            return r["doc"]["failed"]
        if pid == "C16":
            return n_start >= 2
        return n_start >= 2 and r["doc"]["ok"] and len(r["doc"]["results"][0]) >= 2
    chk.cov["distinct_nontrivial"] = len({json.dumps([r["cfg"], r["kinds"], r["events"]], sort_keys=True) for r in records if nontriv(r)})
    chk.cov["rule"] = ("scenarios = TLC-simulated behaviours of RunImpl (plan, kinds, exit order, exit codes) forced onto the "
                       "real binary with scripted helpers + seeded random DAG scenarios; non-trivial = "
                       + {"C04": "at least two groups and two processes started", "C05": "at least two groups and two processes started",
                          "C06": "the run failed", "C16": "at least two concurrent members"}[pid])
    other = {}
    tag = TAGS[pid]
    for rec, whys in fails:
        for why in (whys if isinstance(whys, list) else [whys]):
            if why.startswith(tag):
                chk.violation(why, "%s [%s]" % (why, rec.get("label")), rec)
            else:
                other[why] = other.get(why, 0) + 1
    if other:
        chk.notes.append({"rejections_belonging_to_other_properties": other})
    for r in records:
        if nontriv(r):
            chk.sample({k: v for k, v in r.items() if k in ("mode", "label", "events", "rc", "fou")}, limit=2)
    chk.assumptions += [
        "helper start/end stamps are CLOCK_MONOTONIC inner intervals: an ordering violation between recorded stamps implies one between the real process lifetimes",
        "dependencies and requested sets are recomputed by TLC from the recorded configuration (Targets.tla, Dag.tla)",
        "exit order inside a group is forced with marker files, never with sleeps",
    ]
    return chk.finish()


def replay(pid, path):
    obj = json.load(open(path))
    rec = {k: v for k, v in obj["replay"].items() if not k.startswith("_")}
    fails, _, _ = vlib.judge("RunJudge", [rec], shards=1)
    for r, why in fails:
        if not any(w.startswith(TAGS[pid]) for w in (why if isinstance(why, list) else [why])):
            continue
        print("REPLAY: recorded run still rejected: %s" % why)
        print("VIOLATION property=%s replay=%s" % (pid, path))
        return 1
    print("REPLAY: recorded run accepted by the specification")
    return 0
