"""C02, C07, C19: repository histories. Changes.tla is model-checked (design-level: what git.rs computes is
what C02 states; the C07 fixpoint and re-flag laws); TLC-simulated behaviours and random edit scripts are
replayed with real git and the real binary; ChangesJudge.tla (TLC trace validation) judges every step."""
import hashlib, json, os, random, shutil
from concurrent.futures import ThreadPoolExecutor
import vlib, fixture, runlib

TAGS = {"C02": "C02:", "C07": "C07:", "C19": "C19:"}

SCHEMES = {
    "plain": {"a": "a", "b": "b", "af": "a/f.txt", "ag": "a/g.txt", "bf": "b/f.txt", "bi": "b/i.log", "ah": "a/h.txt", "bg": "b/g.txt",
              "x": "shared/proto", "xf": "shared/proto/api.txt", "yf": "docs/readme.txt"},
    "space": {"a": "sp ce", "b": "sp ce2", "af": "sp ce/f ile.txt", "ag": "sp ce/g.txt", "bf": "sp ce2/f.txt", "bi": "sp ce2/i i.log",
              "ah": "sp ce/h  h.txt", "bg": "sp ce2/g g.txt", "x": "sh ared/pro to", "xf": "sh ared/pro to/a pi.txt", "yf": "do cs/read me.txt"},
    "utf": {"a": "ünï", "b": "lib", "af": "ünï/fé.txt", "ag": "ünï/g.txt", "bf": "lib/日本.txt", "bi": "lib/i.log",
            "ah": "ünï/h.txt", "bg": "lib/gß.txt", "x": "gemeinsam/prötö", "xf": "gemeinsam/prötö/äpi.txt", "yf": "dökümente/lies mich.txt"},
    # names that begin like monorail's own output directory (`monorail-out`) or like another target
    "outish": {"a": "monorail-out-x", "b": "monorail-outer", "af": "monorail-out-x/f.txt", "ag": "monorail-out-x/g.txt", "bf": "monorail-outer/f.txt",
               "bi": "monorail-outer/i.log", "ah": "monorail-out-x/h.txt", "bg": "monorail-outer/g.txt", "x": "monorail-output/proto",
               "xf": "monorail-output/proto/api.txt", "yf": "monorail-o/readme.txt"},
    "quote": {"a": "a", "b": "b", "af": "a/q\"uote.txt", "ag": "a/back\\slash.txt", "bf": "b/tab\tname.txt", "bi": "b/i.log",
              "ah": "a/h.txt", "bg": "b/g.txt", "x": "shared/proto", "xf": "shared/proto/a'pi.txt", "yf": "docs/read\"me.txt"},
}


BIG = {50: "tail-A", 51: "tail-B"}     # content ids of 2.5 MiB files that differ only in their last bytes
_BIG_HEAD = ("big file block %07d\n" % 0) * (2 * 1024 * 1024 // 23 + 20000)


def content(c):
    # content id 2 is the empty file: its SHA-256 differs from the "" recorded for a missing file
    if c == 2:
        return ""
    if c in BIG:
        return _BIG_HEAD + BIG[c] + "\n"
    return ("content %d\n" % c) * 30


def sha(c):
    return hashlib.sha256(content(c).encode()).hexdigest() if c != 0 else ""


class RepoSim:
    def __init__(self, bins, scheme, ids, ignored, beh, with_run=True):
        self.names = SCHEMES[scheme]
        self.beh_index = beh
        self.ids = ids
        self.ignored = ignored
        tA, tB = self.names["a"], self.names["b"]
        # b uses a file of a and a directory that lies in no target (a path under it belongs to b and to nothing else)
        targets = [{"path": tA}, {"path": tB, "uses": [self.names["ag"], self.names["x"]]}]
        # the ignore pattern comes from one of git's three standard exclude sources (tree .gitignore, .git/info/exclude,
        # the user's core.excludesFile); the repository is named on the command line in one of three spellings
        self.fx = fixture.Fixture(bins, targets, gitignore="*.log\n", ignore_via=("tree", "info", "global")[beh % 3] if isinstance(beh, int) else None,
                                  via=("plain", "link", "dotdot", "link")[(beh // 3) % 4] if isinstance(beh, int) else None)
        fx = self.fx
        self.id2path = {i: self.names[i] for i in ids}
        self.path2id = {v: k for k, v in self.id2path.items()}
        self.sum2c = {"": 0}
        for c in range(1, 60):
            self.sum2c[sha(c)] = c
        for t in (tA, tB):
            with open(os.path.join(fx.repo, t, "keep.txt"), "w") as f:
                f.write("keep\n")
            os.remove(os.path.join(fx.repo, t, "src.txt"))
        self.init = {}
        for i in ids:
            c = 0 if i in ignored else 1
            self.init[i] = c
            if c:
                self._write(i, c)
        if with_run:
            for t in (tA, tB):
                fx.add_cmd(t, "build", [{"op": "exit", "code": 0}], ext=".sh")
        fx.git_init()
        self.shas = [fx.head()]
        self.tag_head()
        self.ncommits = 1
        cfg = runlib.cfg_abs(targets)
        self.events = [{"ev": "reset", "beh": beh, "paths": [{"id": i, "comp": runlib.P(self.id2path[i])} for i in ids],
                        "ignored": sorted(ignored), "cfg": cfg, "init": [[i, self.init[i]] for i in ids], "scheme": scheme}]
        self.wt = dict(self.init)
        self.idx = dict(self.init)
        self.cp_set = False

    def _abs(self, i):
        return os.path.join(self.fx.repo, self.id2path[i])

    def _write(self, i, c):
        p = self._abs(i)
        os.makedirs(os.path.dirname(p), exist_ok=True)
        with open(p, "w") as f:
            f.write(content(c))
        # many tools preserve timestamps (cp -p, rsync -a, tar x, mv of an older file): every other write gets an old
        # mtime, so nothing may rely on "modified after the checkpoint was saved"
        self._nwrites = getattr(self, "_nwrites", 0) + 1
        if self._nwrites % 2 == 0:
            # distinct per write: an identical (mtime, size) pair would make git itself miss the change (racy stat cache)
            old = 1000000000 + self._nwrites * 7
            os.utime(p, (old, old))

    def map_path(self, s):
        return self.path2id.get(s, "<unmappable:%s>" % s)

    def cp_out(self, out):
        cp = (out or {}).get("checkpoint") or {}
        cid = cp.get("id", "")
        idn = self.rev_index(cid)
        pend = cp.get("pending") or {}
        return {"id": idn, "pending": sorted([[self.map_path(k), self.sum2c.get(v, -2)] for k, v in pend.items()])}

    # ---- how a commit is named on the command line: its full id, an abbreviated id, or a tag (the tags of later commits
    # extend the names of earlier ones: v1, v1.1, v1.1.1, ... -- every one a textual prefix of the next)
    def tag_of(self, i):
        return "v" + ".".join(["1"] * i)

    def rev(self, i):
        sha = self.shas[i - 1]
        kind = (self.beh_index if isinstance(self.beh_index, int) else 0) % 3
        if kind == 1:
            return self.tag_of(i)
        if kind == 2:
            return sha[:12]
        return sha

    def rev_index(self, name):
        if name in self.shas:
            return self.shas.index(name) + 1
        for i in range(1, len(self.shas) + 1):
            if name == self.tag_of(i) or (len(name) >= 7 and self.shas[i - 1].startswith(name)):
                return i
        return -1

    def tag_head(self):
        self.fx.git("tag", self.tag_of(len(self.shas)))

    # ---- model actions on the real repository
    def act(self, a):
        fx, k = self.fx, a["a"]
        if k == "write":
            self._write(a["p"], a["c"]); self.wt[a["p"]] = a["c"]
            self.events.append({"ev": "write", "p": a["p"], "c": a["c"]})
        elif k == "delete":
            os.remove(self._abs(a["p"])); self.wt[a["p"]] = 0
            self.events.append({"ev": "delete", "p": a["p"]})
        elif k == "move":
            os.makedirs(os.path.dirname(self._abs(a["q"])), exist_ok=True)
            os.rename(self._abs(a["p"]), self._abs(a["q"]))
            self.wt[a["q"]] = self.wt[a["p"]]; self.wt[a["p"]] = 0
            self.events.append({"ev": "move", "p": a["p"], "q": a["q"]})
        elif k == "gitmv":
            fx.git("mv", "--", self.id2path[a["p"]], self.id2path[a["q"]])
            self.wt[a["q"]] = self.wt[a["p"]]; self.wt[a["p"]] = 0
            self.idx[a["q"]] = self.idx[a["p"]]; self.idx[a["p"]] = 0
            self.events.append({"ev": "gitmv", "p": a["p"], "q": a["q"]})
        elif k == "stage":
            fx.git("add", "-A", "--", self.id2path[a["p"]])
            self.idx[a["p"]] = self.wt[a["p"]]
            self.events.append({"ev": "stage", "p": a["p"]})
        elif k == "stage_all":
            fx.git("add", "-A")
            for i in self.ids:
                if i not in self.ignored:
                    self.idx[i] = self.wt[i]
            self.events.append({"ev": "stage_all"})
        elif k == "commit":
            fx.git("commit", "-q", "--allow-empty", "-m", "c%d" % len(self.shas))
            self.shas.append(fx.head())
            self.tag_head()
            self.events.append({"ev": "commit"})
        elif k == "cp_update":
            args = ["checkpoint", "update"]
            if a["id"] != 0:
                args += ["-i", self.rev(a["id"])]
            if a["pending"]:
                args.append("-p")
            r = fx.monorail(args)
            self.events.append({"ev": "cp_update", "id": a["id"], "pending": a["pending"], "rc": r["rc"], "out": self.cp_out(r["out"])})
            if r["rc"] == 0:
                self.cp_set = True
        elif k == "cp_update_fault":
            # the change provider fails (or the update is killed) part-way: nothing may have been recorded
            script = os.path.join(fx.root, "failing-git.sh")
            with open(script, "w") as f:
                # ... by exiting non-zero, or by dying of a signal itself before it has printed anything
                self._nfaults = getattr(self, "_nfaults", (self.beh_index if isinstance(self.beh_index, int) else 0)) + 1
                f.write("#!/bin/sh\n" + ("kill -9 $PPID\n" if a.get("kill") else "")
                        + ("kill -%s $$\nsleep 5\n" % ("TERM", "KILL", "HUP")[self._nfaults % 3] if self._nfaults % 2 == 0 and not a.get("kill") else "") + "exit 128\n")
            os.chmod(script, 0o755)
            p = fx.spawn(["checkpoint", "update", "--git-path", script] + (["-p"] if a.get("pending") else []))
            p.communicate(timeout=60)
            self.events.append({"ev": "cp_update_fault", "rc": p.returncode})
        elif k == "cp_delete":
            r = fx.monorail(["checkpoint", "delete"])
            self.events.append({"ev": "cp_delete", "rc": r["rc"]})
            if r["rc"] == 0:
                self.cp_set = False
        elif k == "out_delete_all":
            self._ndel = getattr(self, "_ndel", 0) + 1
            r = None
            if self._ndel % 2 == 0:
                # invoked from another directory (the configuration is named by its absolute path): it may refuse, but if
                # it reports success there is no checkpoint afterwards
                r = fx.monorail(["out", "delete", "--all"], cwd=fx.root)
                self.events.append({"ev": "out_delete_all", "rc": r["rc"], "elsewhere": True})
            if r is None or r["rc"] != 0:
                r = fx.monorail(["out", "delete", "--all"])
                self.events.append({"ev": "out_delete_all", "rc": r["rc"]})
            if r["rc"] == 0:
                self.cp_set = False
        else:
            raise vlib.ToolError("unknown action %r" % (a,))

    # ---- observations
    def analyze(self, begin=0, end=0):
        args = ["analyze", "--changes"]
        if begin:
            args += ["--begin", self.rev(begin)]
        if end:
            args += ["--end", self.rev(end)]
        r = self.fx.monorail(args)
        out = r["out"] or {}
        raw = [c.get("path", "") for c in (out.get("changes") or [])]
        self.events.append({"ev": "analyze", "begin": begin, "end": end, "rc": r["rc"],
                            "changes": [self.map_path(x) for x in raw],
                            "sorted": all(raw[i].encode() <= raw[i + 1].encode() for i in range(len(raw) - 1)),
                            "targets": [runlib.P(t) for t in out.get("targets", [])],
                            "checkpointed": bool(out.get("checkpointed")), "raw": raw})

    def show(self):
        r = self.fx.monorail(["checkpoint", "show"])
        self.events.append({"ev": "cp_show", "rc": r["rc"], "out": self.cp_out(r["out"])})

    def run(self):
        self.fx.reset_helper()
        r = self.fx.monorail(["run", "-c", "build"])
        started = sorted({(e.get("id") or {}).get("target", "?") for e in self.fx.events() if e["k"] == "start"})
        self.events.append({"ev": "run", "rc": r["rc"], "started": [runlib.P(t) for t in started]})

    def close(self):
        self.fx.cleanup()


def replay_behaviour(bins, beh_index, actions, scheme, ids, ignored, rng, obs_every=1, run_prob=0.25):
    sim = RepoSim(bins, scheme, ids, ignored, beh_index)
    try:
        sim.analyze()
        for a in actions:
            try:
                sim.act(a)
            except (OSError, vlib.ToolError) as e:
                # the action was not possible on the real repository (harness/model disagreement): stop this behaviour
                sim.events.append({"ev": "harness_abort", "why": str(e)[:200]})
                break
            k = a["a"]
            sim.analyze()
            if k in ("cp_update", "cp_delete", "out_delete_all", "cp_update_fault") or rng.random() < 0.15:
                sim.show()
            # explicit --begin / --end: with a checkpoint (C02), and without one (C19: still "no checkpoint, every target")
            if len(sim.shas) >= 1 and rng.random() < (0.35 if sim.cp_set else 0.6):
                b = rng.randint(0, len(sim.shas))
                e = rng.randint(0, len(sim.shas))
                if b or e:
                    sim.analyze(b, e)
            if (k == "cp_update" and a["pending"] and rng.random() < 0.8) or rng.random() < run_prob * 0.3 \
               or (k in ("cp_delete", "out_delete_all") and rng.random() < 0.6):
                sim.run()
        return sim.events
    finally:
        sim.close()


def random_actions(rng, ids, ignored, n, maxc=30):
    """Independent driver: a random edit script that keeps its own picture of the repository only to choose
    applicable actions (never to predict monorail's answers)."""
    wt = {i: (0 if i in ignored else 1) for i in ids}
    idx = dict(wt)
    head = dict(wt)
    ncommits = 1
    fresh = [2]
    cp = False
    acts = []
    def newc():
        fresh[0] += 1
        return fresh[0]
    for _ in range(n):
        r = rng.random()
        p = rng.choice(ids)
        if r < 0.22:
            c = newc() if rng.random() < 0.7 else rng.randint(1, max(2, fresh[0]))
            if wt[p] == c:
                continue
            acts.append({"a": "write", "p": p, "c": c}); wt[p] = c
        elif r < 0.30 and wt[p] != 0:
            acts.append({"a": "delete", "p": p}); wt[p] = 0
        elif r < 0.38:
            q = rng.choice(ids)
            if q != p and wt[p] != 0 and wt[q] == 0 and ((p in ignored) == (q in ignored)):
                if rng.random() < 0.5 and idx[p] != 0 and idx[q] == 0 and p not in ignored:
                    acts.append({"a": "gitmv", "p": p, "q": q}); wt[q] = wt[p]; wt[p] = 0; idx[q] = idx[p]; idx[p] = 0
                else:
                    acts.append({"a": "move", "p": p, "q": q}); wt[q] = wt[p]; wt[p] = 0
        elif r < 0.48 and p not in ignored and idx[p] != wt[p]:
            acts.append({"a": "stage", "p": p}); idx[p] = wt[p]
        elif r < 0.56:
            if any(idx[i] != wt[i] for i in ids if i not in ignored):
                acts.append({"a": "stage_all"})
                for i in ids:
                    if i not in ignored:
                        idx[i] = wt[i]
        elif r < 0.66 and idx != head and ncommits < 6:
            acts.append({"a": "commit"}); head = dict(idx); ncommits += 1
        elif r < 0.86:
            acts.append({"a": "cp_update", "id": 0 if rng.random() < 0.7 else rng.randint(1, ncommits), "pending": rng.random() < 0.7}); cp = True
        elif r < 0.88:
            acts.append({"a": "cp_update_fault", "pending": rng.random() < 0.5, "kill": rng.random() < 0.4})
        elif r < 0.91 and cp:
            acts.append({"a": "cp_delete"}); cp = False
        elif r < 0.94:
            acts.append({"a": "out_delete_all"}); cp = False
    return acts


def huge_pending_behaviour(bins, beh, n):
    """A pending set whose checkpoint record is larger than a megabyte (n untracked files with ~420-byte paths): what
    `checkpoint update --pending` printed must be what `checkpoint show` returns, and nothing is changed afterwards."""
    ids = ["af"]
    sim = RepoSim(bins, "plain", ids, [], beh, with_run=False)
    try:
        fx = sim.fx
        d1, d2 = "d" * 200, "e" * 180
        names = ["a/%s/%s%05d" % (d1, d2, i) if i % 2 else "b/%s/%s%05d" % (d1, d2, i) for i in range(n)]
        for nm in names:
            sim.id2path[nm] = nm
            sim.path2id[nm] = nm
        sim.events[0]["paths"] += [{"id": nm, "comp": runlib.P(nm)} for nm in names]
        sim.events[0]["init"] += [[nm, 0] for nm in names]
        sim.ids = ids + names
        for nm in names:
            sim.wt[nm] = 0; sim.idx[nm] = 0
        for k, nm in enumerate(names):
            c = 3 + (k % 30)
            os.makedirs(os.path.dirname(os.path.join(fx.repo, nm)), exist_ok=True)
            with open(os.path.join(fx.repo, nm), "w") as f:
                f.write(content(c))
            sim.wt[nm] = c
            sim.events.append({"ev": "write", "p": nm, "c": c})
        sim.act({"a": "cp_update", "id": 0, "pending": True})
        sim.show()
        sim.analyze()
        return sim.events
    finally:
        sim.close()


CJK = "零一二三四五六七八九"


def bulk_behaviour(bins, beh, n, rng, wide=False):
    """Independent driver for large change sets: n files with fixed-length names (every name + NUL is 16 bytes, so
    records end exactly on 4096-byte boundaries of git's output), first untracked, then committed after an older
    checkpoint, then filtered by a pending map; more than 100 changes cross analyze's batch boundaries."""
    ids = ["af"]
    sim = RepoSim(bins, "plain", ids, [], beh, with_run=False)
    try:
        fx = sim.fx
        names = []
        for i in range(n):
            t = "a" if i % 3 else "b"
            nm = "%s/%s%011d" % (t, "bk"[i % 2], i)          # 1 + 1 + 1 + 11 = 14... padded below to 15 bytes
            nm = nm + "x"
            if wide:
                # names made of three-byte characters, of varying length: every 4096-byte boundary of git's output
                # falls inside some character
                nm = "%s/%s%s" % (t, "".join(CJK[int(d)] for d in "%04d" % i), "文書報告版"[: 1 + i % 5] * (1 + i % 3))
            names.append(nm)
        if n > 300 and not wide:
            # one 16-byte name sorting first shifts every later record end onto a multiple of 16, so that path ends
            # coincide with 4096-byte boundaries of git's output (the smaller sets keep the other alignment)
            names.insert(0, "a/A%013d" % 0)
        # the trace needs every path declared at reset: rebuild the reset event
        for nm in names:
            sim.id2path[nm] = nm
            sim.path2id[nm] = nm
        sim.events[0]["paths"] += [{"id": nm, "comp": runlib.P(nm)} for nm in names]
        sim.events[0]["init"] += [[nm, 0] for nm in names]
        sim.ids = ids + names
        for nm in names:
            sim.wt[nm] = 0; sim.idx[nm] = 0
        sim.act({"a": "cp_update", "id": 0, "pending": False})
        sim.analyze()
        fresh = 40
        for k, nm in enumerate(names):
            c = 3 + (k % 30)
            with open(os.path.join(fx.repo, nm), "w") as f:
                f.write(content(c))
            sim.wt[nm] = c
            sim.events.append({"ev": "write", "p": nm, "c": c})
        sim.analyze()                       # all untracked
        sim.act({"a": "stage_all"})
        sim.analyze()
        sim.act({"a": "commit"})
        sim.analyze()                       # committed since the checkpoint
        sim.analyze(1, 2)                   # explicit begin / end
        sim.act({"a": "cp_update", "id": 1, "pending": False})
        # touch a subset, record them as pending, touch a few again
        sub = rng.sample(names, min(len(names), 130))
        for k, nm in enumerate(sub):
            c = 35 + (k % 4)                   # more than 50 pending paths with differing contents
            with open(os.path.join(fx.repo, nm), "w") as f:
                f.write(content(c))
            sim.wt[nm] = c
            sim.events.append({"ev": "write", "p": nm, "c": c})
        sim.analyze()
        sim.act({"a": "cp_update", "id": 1, "pending": True})
        sim.analyze()
        for nm in sub[:7]:
            with open(os.path.join(fx.repo, nm), "w") as f:
                f.write(content(40))
            os.utime(os.path.join(fx.repo, nm), (1000000500 + len(nm), 1000000500 + len(nm)))
            sim.wt[nm] = 40
            sim.events.append({"ev": "write", "p": nm, "c": 40})
        sim.analyze()
        # a large file recorded as pending and then changed only beyond its first 2 MiB must be reported again
        big = names[1]
        for c in (50,):
            with open(os.path.join(fx.repo, big), "w") as f:
                f.write(content(c))
            sim.wt[big] = c
            sim.events.append({"ev": "write", "p": big, "c": c})
        sim.act({"a": "cp_update", "id": 1, "pending": True})
        sim.analyze()
        with open(os.path.join(fx.repo, big), "w") as f:
            f.write(content(51))
        sim.wt[big] = 51
        sim.events.append({"ev": "write", "p": big, "c": 51})
        sim.analyze()
        return sim.events
    finally:
        sim.close()


def mc_cfg(paths, ignored, maxc, maxcommits, emit_depth, keep_stale=False, props=True):
    return ("CONSTANTS Paths = {%s}\n Ignored = {%s}\n MaxC = %d\n MaxCommits = %d\n EmitDepth = %d\n KeepStalePending = %s\n"
            "SPECIFICATION Spec\n%sINVARIANTS TypeOK GitMatchesSpec FixpointC07 Emit\n%sCHECK_DEADLOCK FALSE\n") % (
        ", ".join('"%s"' % p for p in paths), ", ".join('"%s"' % p for p in ignored), maxc, maxcommits, emit_depth,
        "TRUE" if keep_stale else "FALSE", "VIEW View\n" if emit_depth == 0 else "", "PROPERTIES ReflagC07\n" if props else "")


def run(pid, tier):
    chk = vlib.Check(pid, tier, "model_checking")
    bins = vlib.build()
    rng = random.Random(chk.seed)
    # ---- specification level
    insts = [("2 paths, 2 contents, 2 commits", ["af", "bf"], [], 2, 2),
             ("3 paths (one ignored), 2 contents, 1 commit", ["af", "ag", "bi"], ["bi"], 2, 1),
             ("2 paths, 3 contents, 1 commit", ["af", "bf"], [], 3, 1)]
    if tier == "thorough":
        insts += [("2 paths, 3 contents, 2 commits", ["af", "bf"], [], 3, 2),
                  ("3 paths (one ignored), 2 contents, 2 commits", ["af", "ag", "bi"], ["bi"], 2, 2)]
    for name, paths, ign, maxc, maxcm in insts:
        r = vlib.tlc("mc/MCChanges", mc_cfg(paths, ign, maxc, maxcm, 0), workers=8, timeout=3000, xmx="16g")
        if r.violated:
            chk.model_violation("MCChanges " + name, r)
        vlib.require_ok(r, "MCChanges " + name)
        chk.add_model("MCChanges/Changes", r, name)
    # ---- behaviours from the specification (simulation), replayed on the real system
    nb = 24 if tier == "quick" else 400
    depth = 14
    r = vlib.tlc("mc/MCChanges", mc_cfg(["af", "ag", "bf", "bi"], ["bi"], 3, 3, depth, props=False), workers=1, timeout=600,
                 simulate="num=%d" % nb, extra=["-depth", str(depth + 1), "-seed", str(chk.seed)])
    behs = [b["hist"] for b in r.printed("BEH")]
    if len(behs) < nb // 2:
        raise vlib.ToolError("too few simulated behaviours: %d" % len(behs))
    jobs = []
    schemes = ["plain", "space", "utf", "outish"] + (["quote"] if tier == "thorough" else [])
    for i, h in enumerate(behs):
        jobs.append((i, h, schemes[i % len(schemes)], ["af", "ag", "bf", "bi"], ["bi"]))
    nr = 12 if tier == "quick" else 200
    for j in range(nr):
        ids = ["af", "ag", "ah", "bf", "bg", "bi", "xf", "yf"]
        jobs.append((len(behs) + j, random_actions(random.Random(chk.seed * 1000 + j), ids, ["bi"], rng.randint(20, 45)),
                     schemes[j % len(schemes)], ids, ["bi"]))
    # bulk change sets (sizes around analyze's batch size and git output buffer boundaries)
    bulk_sizes = [120, 701] if tier == "quick" else [49, 50, 51, 100, 101, 120, 256, 300, 512, 701, 1024]
    for b, n in enumerate(bulk_sizes):
        jobs.append((len(jobs), None, "bulk", n, None))
    for n in ([400] if tier == "quick" else [150, 400, 900]):
        jobs.append((len(jobs), None, "bulkwide", n, None))
    if pid == "C19" or tier == "thorough":
        jobs.append((len(jobs), None, "hugepending", 2600, None))
    def one(job):
        i, acts, scheme, ids, ign = job
        if scheme == "bulk":
            return bulk_behaviour(bins, i, ids, random.Random(chk.seed * 7919 + i))
        if scheme == "hugepending":
            return huge_pending_behaviour(bins, i, ids)
        if scheme == "bulkwide":
            return bulk_behaviour(bins, i, ids, random.Random(chk.seed * 7919 + i), wide=True)
        return replay_behaviour(bins, i, acts, scheme, ids, ign, random.Random(chk.seed * 7919 + i))
    with ThreadPoolExecutor(max_workers=12) as ex:
        traces = list(ex.map(one, jobs))
    aborted = sum(1 for t in traces if any(e["ev"] == "harness_abort" for e in t))
    clean = []
    for t in traces:
        clean.append([{k: v for k, v in e.items() if k not in ("raw", "scheme")} for e in t if e["ev"] != "harness_abort"])
    fails, st, tr = vlib.judge_traces("ChangesJudge", clean, shards=min(8, max(1, len(clean) // 4)))
    chk.cov["states"] += st
    chk.cov["transitions"] += tr
    chk.cov["traces_validated_against_impl"] = len(clean)
    chk.cov["evaluations"] = sum(len(t) for t in clean)
    chk.cov["events_validated"] = sum(len(t) for t in clean)
    chk.cov["behaviours_from_tlc_simulation"] = len(behs)
    chk.cov["behaviours_from_random_driver"] = nr
    chk.cov["harness_aborted_behaviours"] = aborted
    def nontrivial(t):
        kinds = {e["ev"] for e in t}
        return "cp_update" in kinds and any(e["ev"] == "analyze" and e.get("changes") for e in t)
    chk.cov["distinct_nontrivial"] = len({json.dumps(t, sort_keys=True) for t in clean if nontrivial(t)})
    chk.cov["rule"] = ("behaviours = TLC-simulated histories of MCChanges (4 paths, depth %d) and seeded random edit scripts "
                       "(6 paths, 20-45 actions) under naming schemes with spaces and non-ASCII characters; after every action "
                       "analyze --changes (and sometimes --begin/--end, checkpoint show, run) is recorded; non-trivial = the "
                       "history has a checkpoint update and at least one non-empty change report") % depth
    tag = TAGS[pid]
    other = {}
    for bi, si, rec, why in fails:
        if why.startswith(tag):
            t = traces[bi]
            chk.violation(why, "%s (behaviour %d step %d, scheme %s)" % (why, bi, si, t[0].get("scheme")),
                          {"trace": t[: si + 1 + sum(1 for e in t[:si + 1] if e["ev"] == "harness_abort")], "step": si})
        else:
            other[why] = other.get(why, 0) + 1
    if other:
        chk.notes.append({"rejections_belonging_to_other_properties": other})
    for t in clean:
        if nontrivial(t):
            chk.sample([{k: v for k, v in e.items() if k not in ("cfg", "paths")} for e in t[:12]], limit=2)
    chk.assumptions += ["content identifiers are mapped to bytes (and SHA-256 sums back to identifiers) by the harness",
                        "git (system binary) is part of the system under test; it runs with an isolated global config",
                        "file mode changes, git rm --cached and submodules are outside the property's quantifier and not generated"]
    # ---- the composed specification (Monorail.tla) stepped through real processes, state compared after every action
    import session
    if pid == "C19":
        session.stage(chk, bins, pid, 20 if tier == "quick" else 300, 80)
    if pid == "C19":
        chk.assumptions.append("session replay: a mutating invocation is held at hook points by marker files (guarded build); the steps "
                               "between two hold points are taken as one action of Monorail.tla (CpRead+CpTruncate composed)")
    return chk.finish()


def replay(pid, path):
    obj = json.load(open(path))
    if isinstance(obj.get("replay"), dict) and obj["replay"].get("ev") == "session":
        import session
        rc = session.replay_one(pid, obj["replay"])
        if rc:
            print("VIOLATION property=%s replay=%s" % (pid, path))
        else:
            print("REPLAY: the recorded session behaviour is reproduced by the real system without a mismatch")
        return rc
    t = [{k: v for k, v in e.items() if k not in ("raw", "scheme")} for e in obj["replay"]["trace"] if e["ev"] != "harness_abort"]
    fails, _, _ = vlib.judge_traces("ChangesJudge", [t], shards=1)
    bad = [f for f in fails if f[3].startswith(TAGS[pid])]
    if bad:
        print("REPLAY: recorded history still rejected: %s" % bad[0][3])
        print("VIOLATION property=%s replay=%s" % (pid, path))
        return 1
    print("REPLAY: recorded history accepted")
    return 0
