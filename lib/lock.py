"""C14: mutual exclusion of mutating invocations. Lock.tla is model-checked (3 contenders x 4 APIs, kills);
TLC-chosen interleavings are forced on the real binary by parking the holder at the guarded point right
after lock acquisition; LockJudge.tla (TLC) judges the recorded intervals."""
import itertools
import hashlib, json, os, random, signal, subprocess, time
from concurrent.futures import ThreadPoolExecutor
import vlib, fixture

APIS = ["run", "cp_update", "cp_delete", "out_delete"]


def snapshot(fx):
    h = hashlib.sha256()
    root = fx.out_path()
    for d, dirs, files in sorted(os.walk(root)):
        for dn in sorted(dirs):
            h.update(b"dir:" + os.path.relpath(os.path.join(d, dn), root).encode() + b"\0")     # empty directories count too
        for f in sorted(files):
            p = os.path.join(d, f)
            try:
                with open(p, "rb") as fh:
                    data = fh.read()
            except OSError:
                data = b"<unreadable>"
            h.update(os.path.relpath(p, root).encode() + b"\0" + hashlib.sha256(data).digest())
    return h.hexdigest()


_out_delete_counter = itertools.count()
_variant_counter = itertools.count()


class Proc:
    plain = False

    def __init__(self, fx, n, api, park=None, prefix=None, deaf=False):
        """deaf: nobody reads the invocation's standard error (a pipe whose reading end is closed): whatever it wanted
        to say there is lost, its exit status is all there is"""
        self.fx, self.n, self.api = fx, n, api
        self.deaf = deaf
        self.trace = os.path.join(fx.root, "trace-%d.ndjson" % n)
        self.cmd = "cmd%d" % n
        env = {"MONORAIL_VERIF_TRACE": self.trace}
        if park:
            env["MONORAIL_VERIF_DELAY"] = "lock.acquired:1:@" + park
        if api == "run":
            for t in ("t1", "t2"):
                fx.add_cmd(t, self.cmd, [{"op": "out", "text": "hello\n"}, {"op": "exit", "code": 0}], ext=".sh",
                           ident={"cmd": self.cmd, "target": t})
            # (the lock is taken by the API, whatever its flags: unparked invocations alternate between flag sets)
            args = ["run", "-c", self.cmd, "-t", "t1", "t2"] + (["--deps"] if park is None and next(_variant_counter) % 2 == 1 else [])
        elif api == "cp_update":
            args = ["checkpoint", "update"] + ([] if park is None and next(_variant_counter) % 2 == 1 else ["-p"])
        elif api == "cp_delete":
            args = ["checkpoint", "delete"]
        else:
            # `out delete` takes the lock with and without --all (without it, it only reports what --all would recover):
            # every second unparked one is the plain form -- as a loser it must fail with the lock error like the others
            self.plain = park is None and next(_out_delete_counter) % 2 == 1
            args = ["out", "delete"] if self.plain else ["out", "delete", "--all"]
        self.kill_ts = -1
        self.spawn_ts = time.monotonic_ns()
        if deaf:
            r_, w_ = os.pipe()
            os.close(r_)
            self.p = fx.spawn(args, env=env, prefix=prefix, stderr=w_)
            os.close(w_)
        else:
            self.p = fx.spawn(args, env=env, prefix=prefix)
        self.exit_ts = -1
        self.rc = None
        self.err = ""

    def acquired(self):
        try:
            with open(self.trace) as f:
                return any('"lock.acquired"' in l for l in f)
        except OSError:
            return False

    def wait(self, timeout=60):
        try:
            so, se = self.p.communicate(timeout=timeout)
        except subprocess.TimeoutExpired:
            self.fx.kill_group(self.p)
            so, se = self.p.communicate()
        self.exit_ts = time.monotonic_ns()
        self.rc = self.p.returncode
        for line in (se or b"").decode("utf-8", "replace").splitlines():
            try:
                e = json.loads(line)
                if e.get("kind") == "error":
                    # a lock error: the error type monorail uses for it, or any error whose text speaks of the lock
                    self.err = "server" if (e.get("type") == "server" or "lock" in (str(e.get("type", "")) + " " + str(e.get("message", ""))).lower()) else e.get("type", "")
            except ValueError:
                pass

    def kill(self):
        self.kill_ts = time.monotonic_ns()
        self.fx.kill_group(self.p)

    def record(self, helpers, changed):
        acq = rel = trying = -1
        try:
            with open(self.trace) as f:
                for l in f:
                    e = json.loads(l)
                    if e["point"] == "lock.acquired":
                        acq = e["ts"]
                    elif e["point"] == "lock.releasing":
                        rel = e["ts"]
                    elif e["point"] == "lock.trying":
                        trying = e["ts"]
        except (OSError, ValueError):
            pass
        return {"p": self.n, "api": self.api, "spawn_ts": self.spawn_ts, "exit_ts": self.exit_ts, "acquired_ts": acq,
                "releasing_ts": rel, "kill_ts": self.kill_ts, "trying_ts": trying, "held_after_try_ms": -1,
                "rc": self.rc if self.rc is not None else -9, "err": self.err, "errlost": self.deaf, "helpers": helpers, "changed": changed, "plain": self.plain}

    def trying(self):
        try:
            with open(self.trace) as f:
                return any('"lock.trying"' in l for l in f)
        except OSError:
            return False


def helpers_of(fx, proc):
    return sum(1 for e in fx.events() if e["k"] == "start" and (e.get("id") or {}).get("cmd") == proc.cmd)


def new_fixture(bins, bind_timeout_ms=None, lock_host=None, lock_override=None):
    fx = fixture.Fixture(bins, [{"path": "t1"}, {"path": "t2", "uses": ["t1"]}], max_retained_runs=3, lock_host=lock_host)
    if lock_override is not None:
        fx.lock_override = lock_override
        fx.write_config()
    if bind_timeout_ms:
        cfg = fx.config()
        cfg["server"]["lock"]["bind_timeout_ms"] = bind_timeout_ms
        fx.write_config(json.dumps(cfg))
    fx.add_cmd("t1", "warm", [{"op": "exit", "code": 0}], ext=".sh")
    fx.git_init()
    fx.monorail(["checkpoint", "update"])
    fx.monorail(["run", "-c", "warm", "-t", "t1"])
    return fx


def parked_scenario(bins, idx, spec, rng):
    """spec: {"holder": api, "contenders": [api..], "end": "release"|"fail"|"kill", "successor": api}
    spec["lock"]: the `server.lock` object of the configuration, as given (a lock object without a port: the default port
    applies, on a loopback address of the scenario's own; a port no TCP socket can have: nobody can ever hold that
    lock -- every invocation fails, none does anything -- marked `unusable`)"""
    fx = new_fixture(bins, lock_host="localhost" if idx % 3 == 1 else None, lock_override=spec.get("lock"))
    try:
        release = os.path.join(fx.root, "release")
        n = [0]
        def nxt():
            n[0] += 1
            return n[0]
        holder = Proc(fx, nxt(), spec["holder"], park=release)
        deadline = time.time() + 30
        while not holder.acquired() and time.time() < deadline and holder.p.poll() is None:
            time.sleep(0.002)
        procs = [holder]
        recs = []
        snap0 = snapshot(fx)
        losers = []
        # contenders start while the holder is parked right after acquisition (it has not mutated anything yet)
        batch = [Proc(fx, nxt(), a, deaf=(idx % 2 == 1 and k == 0)) for k, a in enumerate(spec["contenders"])]
        for c in batch:
            c.wait()
        snap1 = snapshot(fx)
        for c in batch:
            recs.append(c.record(helpers_of(fx, c), snap1 != snap0))
        # the holder ends
        if spec["end"] == "kill":
            holder.kill()
            holder.wait()
        else:
            if spec["end"] == "fail" and spec["holder"] == "run":
                fx.set_script("t1", holder.cmd, [{"op": "exit", "code": 5}], ident={"cmd": holder.cmd, "target": "t1"})
            with open(release, "w") as f:
                f.write("go")
            holder.wait()
        # the next invocation starts at once
        succ = Proc(fx, nxt(), spec["successor"])
        succ.wait()
        recs.append(holder.record(helpers_of(fx, holder), False))
        recs.append(succ.record(helpers_of(fx, succ), False))
        return {"ev": "lock", "scenario": idx, "kind": "parked", "spec": spec, "procs": sorted(recs, key=lambda r: r["p"]),
                "unusable": bool(spec.get("unusable"))}
    finally:
        fx.cleanup()


def queued_scenario(bins, idx, spec, rng):
    """The holder is released 3 s after a contender has reached lock acquisition (bind_timeout_ms is set to 12000, so that the release falls well inside any fraction of it): a
    contender that waits for the lock instead of failing at once gets it and is exposed. The margins are seconds, not
    milliseconds, so that no scheduling hiccup of a correct contender can be mistaken for waiting."""
    fx = new_fixture(bins, bind_timeout_ms=12000)
    try:
        release = os.path.join(fx.root, "release")
        holder = Proc(fx, 1, spec["holder"], park=release)
        deadline = time.time() + 30
        while not holder.acquired() and time.time() < deadline and holder.p.poll() is None:
            time.sleep(0.002)
        cont = Proc(fx, 2, spec["contenders"][0])
        deadline = time.time() + 20
        while not cont.trying() and time.time() < deadline and cont.p.poll() is None:
            time.sleep(0.002)
        t_end = time.time() + 3.0
        while time.time() < t_end and cont.p.poll() is None:
            time.sleep(0.01)
        time.sleep(max(0.0, t_end - time.time()))
        with open(release, "w") as f:
            f.write("go")
        holder.wait()
        cont.wait()
        recs = [holder.record(helpers_of(fx, holder), False), cont.record(helpers_of(fx, cont), False)]
        return {"ev": "lock", "scenario": idx, "kind": "queued", "spec": spec, "procs": recs}
    finally:
        fx.cleanup()


def offsets_scenario(bins, idx, rng):
    """Independent driver: 4-8 contenders with random start offsets, nobody parked."""
    fx = new_fixture(bins, lock_host="localhost" if idx % 2 else None)
    try:
        k = rng.randint(4, 8)
        procs = []
        for i in range(k):
            procs.append(Proc(fx, i + 1, rng.choice(APIS)))
            time.sleep(rng.random() * 0.03)
        for p in procs:
            p.wait()
        recs = [p.record(helpers_of(fx, p) if p.acquired() is False else 0, False) for p in procs]
        return {"ev": "lock", "scenario": idx, "kind": "offsets", "spec": {}, "procs": recs}
    finally:
        fx.cleanup()


def gap_scenario(bins, idx, rng):
    """2-4 contenders started together, each with its listen(2) call delayed by 300 ms (strace syscall injection): every
    one of them has bound the lock address before any of them listens - the schedule in which bind alone decides nothing.
    Exactly one may get past acquisition."""
    fx = new_fixture(bins, lock_host="localhost" if idx % 2 else None)
    try:
        k = rng.randint(2, 4)
        prefix = ["strace", "-f", "-o", "/dev/null", "-e", "trace=listen", "-e", "inject=listen:delay_enter=300000"]
        procs = [Proc(fx, i + 1, rng.choice(APIS), prefix=prefix) for i in range(k)]
        for p in procs:
            p.wait()
        recs = [p.record(helpers_of(fx, p) if p.acquired() is False else 0, False) for p in procs]
        return {"ev": "lock", "scenario": idx, "kind": "offsets", "spec": {"gap": True}, "procs": recs}
    finally:
        fx.cleanup()


def nested_scenario(bins, idx, rng):
    """Contenders started from INSIDE the holder: a command of a `run` invokes `checkpoint update` / `checkpoint delete` /
    `run` on the same repository while its parent run holds the lock (same environment, same lock address). They are
    concurrent invocations like any other: each must fail with a lock error and leave everything alone."""
    fx = new_fixture(bins)
    try:
        with open(os.path.join(fx.repo, "t1", "more.txt"), "w") as f:
            f.write("more\n")
        fx.git("add", "-A"); fx.git("commit", "-q", "-m", "more")       # HEAD moved: an update would change the checkpoint
        cp_path = fx.out_path("tracking", "checkpoint.json.zst")
        before = open(cp_path, "rb").read() if os.path.exists(cp_path) else None
        apis = rng.sample(["cp_update", "cp_delete", "run"], rng.randint(1, 3))
        fx.add_cmd("t2", "nestedcmd", [{"op": "exit", "code": 0}], ext=".sh", ident={"cmd": "nestedcmd", "target": "t2"})
        base = [fx.bins["monorail"], "-f", fx.cfg_path]
        argv = {"cp_update": base + ["checkpoint", "update"], "cp_delete": base + ["checkpoint", "delete"],
                "run": base + ["run", "-c", "nestedcmd", "-t", "t2"]}
        steps = [{"op": "spawn", "argv": argv[a], "cwd": fx.repo, "out": "nested-%d" % k} for k, a in enumerate(apis)] + [{"op": "exit", "code": 0}]
        fx.add_cmd("t1", "hold", steps, ext=".sh", ident={"cmd": "hold", "target": "t1"})
        trace = os.path.join(fx.root, "trace-nested.ndjson")
        spawn_ts = time.monotonic_ns()
        res = fx.monorail(["run", "-c", "hold", "-t", "t1"], env={"MONORAIL_VERIF_TRACE": trace})
        exit_ts = time.monotonic_ns()
        ev = []
        try:
            ev = [json.loads(l) for l in open(trace) if l.strip()]
        except (OSError, ValueError):
            pass
        pids = []
        for e in ev:
            if e["pid"] not in pids:
                pids.append(e["pid"])
        def stamp(pid, point):
            return next((e["ts"] for e in ev if e["pid"] == pid and e["point"] == point), -1)
        holder_pid = pids[0] if pids else -1
        after = open(cp_path, "rb").read() if os.path.exists(cp_path) else None
        procs = [{"p": 1, "api": "run", "spawn_ts": spawn_ts, "exit_ts": exit_ts, "acquired_ts": stamp(holder_pid, "lock.acquired"),
                  "releasing_ts": stamp(holder_pid, "lock.releasing"), "kill_ts": -1, "trying_ts": stamp(holder_pid, "lock.trying"),
                  "held_after_try_ms": -1, "rc": res["rc"] if res["rc"] is not None else -9, "err": "", "helpers": 0, "changed": False}]
        nested_helpers = sum(1 for e in fx.events() if e["k"] == "start" and (e.get("id") or {}).get("cmd") == "nestedcmd")
        for k, a in enumerate(apis):
            try:
                out = json.load(open(fx.marker("nested-%d" % k)))
            except (OSError, ValueError):
                out = {"rc": -3, "stderr": "no record", "t0": exit_ts}
            pid = pids[k + 1] if len(pids) > k + 1 else -1
            err = ""
            for line in out.get("stderr", "").splitlines():
                try:
                    e = json.loads(line)
                    if e.get("kind") == "error":
                        err = "server" if (e.get("type") == "server" or "lock" in (str(e.get("type", "")) + " " + str(e.get("message", ""))).lower()) else e.get("type", "")
                except ValueError:
                    pass
            procs.append({"p": k + 2, "api": a, "spawn_ts": stamp(pid, "lock.trying") if pid != -1 else spawn_ts + 1, "exit_ts": out.get("t0", exit_ts),
                          "acquired_ts": stamp(pid, "lock.acquired") if pid != -1 else -1, "releasing_ts": stamp(pid, "lock.releasing") if pid != -1 else -1,
                          "kill_ts": -1, "trying_ts": stamp(pid, "lock.trying") if pid != -1 else -1, "held_after_try_ms": -1,
                          "rc": out.get("rc", -3), "err": err, "helpers": nested_helpers if a == "run" else 0,
                          "changed": (after != before) if a in ("cp_update", "cp_delete") else os.path.isdir(fx.out_path("run", "3"))})
        return {"ev": "lock", "scenario": idx, "kind": "nested", "spec": {"nested": apis}, "procs": procs}
    finally:
        fx.cleanup()


def run(pid, tier):
    chk = vlib.Check(pid, tier, "model_checking")
    bins = vlib.build()
    rng = random.Random(chk.seed)
    cfg = ('CONSTANTS Procs = {1, 2, 3}\n Apis = {"run", "cp_update", "cp_delete", "out_delete"}\n StepsOf <- MCStepsOf\n'
           'SPECIFICATION Spec\nINVARIANTS MutualExclusion HolderConsistent LoserIsInert ReleasedOnExitOrKill\n'
           'PROPERTIES OnlyHolderMutates\nCHECK_DEADLOCK FALSE\n')
    r = vlib.tlc("mc/MCLock", cfg, workers=4, timeout=900)
    if r.violated:
        chk.model_violation("MCLock", r)
    vlib.require_ok(r, "MCLock")
    chk.add_model("MCLock/Lock", r, "3 contenders x 4 APIs")
    if tier == "thorough":
        # the composed system (Changes x Store x checkpoint file x lock, two invocations in flight, environment edits):
        # checkpoint and store only ever change in steps of the lock holder; readers never see a torn result
        mono = ('CONSTANTS Procs = {1, 2}\n Paths = {"af", "bf"}\n Cfg <- MCCfg\n Comp <- MCComp\n N = 2\n MaxRuns = 2\n'
                ' MaxCommits = 2\n MaxEdits = 3\nSPECIFICATION Spec\nINVARIANTS AtMostOneHolder HolderIsPastLock ResultShowNeverTorn '
                'RunCoversAffected AnalyzeNeverMixes CpShowNeverMixes CheckpointIsSnapshot\nPROPERTIES MutationsUnderLock\nCHECK_DEADLOCK FALSE\n')
        r2 = vlib.tlc("mc/MCMonorail", mono, workers=10, timeout=3000, xmx="20g")
        if r2.violated:
            chk.model_violation("MCMonorail", r2)
        vlib.require_ok(r2, "MCMonorail")
        chk.add_model("MCMonorail/Monorail", r2, "2 invocations, 2 paths, N=2, 2 runs, 2 commits, 3 edits, 3 reader kinds")
        # for ANY number of contenders and APIs: TLAPS proof of pairwise mutual exclusion (inductive invariant HolderInv)
        import subprocess, shutil, re as _re
        pr = subprocess.run(["timeout", "900", "tlapm", "--threads", "8", "-I", vlib.SPEC, "LockProof.tla"],
                            cwd=os.path.join(vlib.SPEC, "proofs"), stdout=subprocess.PIPE, stderr=subprocess.STDOUT, text=True)
        shutil.rmtree(os.path.join(vlib.SPEC, "proofs", ".tlacache"), ignore_errors=True)
        m = _re.search(r"All (\d+) obligations proved", pr.stdout)
        if m:
            chk.cov["tlaps_obligations_proved"] = int(m.group(1))
        elif "obligations failed" in pr.stdout or "failed" in pr.stdout:
            raise vlib.ToolError("TLAPS: LockProof no longer proves: " + pr.stdout[-400:])
        else:
            chk.notes.append({"tlaps": "could not run: " + pr.stdout[-200:]})
    # every holder API x every way of ending x contenders covering every API
    specs = []
    for h in APIS:
        for end in ("release", "kill") + (("fail",) if h == "run" else ()):
            cont = [rng.choice(APIS) for _ in range(rng.randint(1, 3))]
            specs.append({"holder": h, "contenders": cont, "end": end, "successor": rng.choice(APIS)})
    for a in APIS:      # each API at least once as contender and as successor
        specs.append({"holder": rng.choice(APIS), "contenders": [a, a], "end": rng.choice(["release", "kill"]), "successor": a})
    extra = 40 if tier == "quick" else 400
    for _ in range(extra):
        specs.append({"holder": rng.choice(APIS), "contenders": [rng.choice(APIS) for _ in range(rng.randint(1, 5))],
                      "end": rng.choice(["release", "kill", "fail"]), "successor": rng.choice(APIS)})
    # lock addresses at the edges of what the configuration can say: a `server.lock` object without a port (the default
    # port, on a loopback address of the scenario's own), and port numbers no TCP socket can have
    for k in range(3 if tier == "quick" else 12):
        host = "127.%d.%d.%d" % (1 + os.getpid() % 250, 1 + (chk.seed * 7 + k) % 250, 1 + k % 250)
        specs.append({"holder": "run", "contenders": [rng.choice(APIS), "run"], "end": rng.choice(["release", "kill"]), "successor": rng.choice(APIS),
                      "lock": [{"host": host}, {"host": host, "bind_timeout_ms": 1000}, {"host": host}][k % 3]})
    for k, port in enumerate([65536, 4294967296] + ([131072, 65536 * 3] if tier == "thorough" else [])):
        specs.append({"holder": "run", "contenders": [APIS[k % 4], "run"], "end": "release", "successor": rng.choice(APIS),
                      "lock": {"port": port}, "unusable": True})
    noff = 25 if tier == "quick" else 300
    nq = 6 if tier == "quick" else 60
    queued = [{"holder": rng.choice(APIS), "contenders": [APIS[q % 4]], "end": "release", "successor": "", "queued": True} for q in range(nq)]
    specs += queued
    ngap = 6 if tier == "quick" else 60
    def one(i_s):
        i, s = i_s
        if s == "gap":
            return gap_scenario(bins, i, random.Random(chk.seed * 17 + i))
        if s == "nested":
            return nested_scenario(bins, i, random.Random(chk.seed * 17 + i))
        if s is None:
            return offsets_scenario(bins, i, random.Random(chk.seed * 17 + i))
        if s.get("queued"):
            return queued_scenario(bins, i, s, random.Random(chk.seed * 17 + i))
        return parked_scenario(bins, i, s, random.Random(chk.seed * 17 + i))
    jobs = list(enumerate(specs + [None] * noff + ["gap"] * ngap + ["nested"] * (4 if tier == "quick" else 40)))
    with ThreadPoolExecutor(max_workers=10) as ex:
        recs = list(ex.map(one, jobs))
    # TLC integers are 32-bit: replace the nanosecond stamps of each scenario by their ranks (order and ties preserved)
    for r in recs:
        # how long (ms) the lock stayed definitely held after an invocation reached its acquisition attempt
        for q in r["procs"]:
            best = -1
            for h in r["procs"]:
                if h["p"] != q["p"] and h["acquired_ts"] >= 0 and q["trying_ts"] >= 0:
                    end = h["releasing_ts"] if h["releasing_ts"] >= 0 else (h["kill_ts"] if h["kill_ts"] >= 0 else -1)
                    if end >= 0 and h["acquired_ts"] < q["trying_ts"] < end:
                        best = max(best, (end - q["trying_ts"]) // 1000000)
            q["held_after_try_ms"] = int(best)
        keys = ("spawn_ts", "exit_ts", "acquired_ts", "releasing_ts", "kill_ts", "trying_ts")
        stamps = sorted({p[k] for p in r["procs"] for k in keys if p[k] >= 0})
        rank = {s: i + 1 for i, s in enumerate(stamps)}
        for p in r["procs"]:
            for k in keys:
                p[k] = rank[p[k]] if p[k] >= 0 else -1
    fails, st, tr = vlib.judge("LockJudge", recs, shards=min(4, max(1, len(recs) // 10)))
    chk.cov["states"] += st
    chk.cov["transitions"] += tr
    chk.cov["traces_validated_against_impl"] = len(recs)
    chk.cov["evaluations"] = sum(len(r["procs"]) for r in recs)
    losers = sum(1 for r in recs for p in r["procs"] if p["acquired_ts"] < 0)
    chk.cov["invocations"] = chk.cov["evaluations"]
    chk.cov["losers_observed"] = losers
    chk.cov["distinct_nontrivial"] = len({json.dumps([(p["api"], p["acquired_ts"] >= 0, p["kill_ts"] >= 0) for p in r["procs"]]) + str(r["spec"])
                                          for r in recs if any(p["acquired_ts"] < 0 for p in r["procs"])})
    chk.cov["rule"] = ("scenarios = every API as holder parked right after lock acquisition x {normal exit, failure, SIGKILL}, contenders "
                       "of every API started meanwhile, a successor started at once after the holder's exit was observed, plus "
                       "contenders with random start offsets; non-trivial = at least one invocation lost the lock")
    for rec, why in fails:
        chk.violation(why, "%s (scenario %s %s)" % (why, rec["scenario"], json.dumps(rec["spec"])), rec)
    chk.sample(recs[0], limit=1)
    chk.assumptions += ["lock.acquired / lock.releasing are stamped by the process itself (CLOCK_MONOTONIC) inside the real holding "
                        "interval; spawn / kill / exit stamps are taken by the harness on the same clock",
                        "a loser's effect on checkpoint, results and logs is measured as a digest of monorail-out while the holder is "
                        "parked before its first mutation"]
    # ---- the composed specification (Monorail.tla) stepped through real processes, state compared after every action
    import session
    session.stage(chk, bins, pid, 30 if tier == "quick" else 400, 80)
    # ---- and the other direction: free-running concurrent invocations, their merged hook events validated as a behaviour
    # of Monorail.tla (TLC infers the instants of the bind and of the release at exit)
    import freerun
    freerun.stage(chk, bins, pid, 16 if tier == "quick" else 240)
    chk.assumptions.append("session replay: a mutating invocation is held at hook points by marker files (guarded build); the steps "
                           "between two hold points are taken as one action of Monorail.tla (CpRead+CpTruncate composed)")
    return chk.finish()


def replay(pid, path):
    obj = json.load(open(path))
    if isinstance(obj.get("replay"), dict) and obj["replay"].get("ev") == "freerun":
        import freerun
        rc = freerun.replay_one(pid, obj["replay"])
        if rc:
            print("VIOLATION property=%s replay=%s" % (pid, path))
        return rc
    if isinstance(obj.get("replay"), dict) and obj["replay"].get("ev") == "session":
        import session
        rc = session.replay_one(pid, obj["replay"])
        if rc:
            print("VIOLATION property=%s replay=%s" % (pid, path))
        else:
            print("REPLAY: the recorded session behaviour is reproduced by the real system without a mismatch")
        return rc
    fails, _, _ = vlib.judge("LockJudge", [obj["replay"]], shards=1)
    if fails:
        print("REPLAY: recorded scenario still rejected: %s" % fails[0][1])
        print("VIOLATION property=%s replay=%s" % (pid, path))
        return 1
    print("REPLAY: recorded scenario accepted")
    return 0
