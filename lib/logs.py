"""C08: stored logs are byte-exact and isolated. Logs.tla is model-checked over all interleavings of child
writes, reader reads, flush ticks, EOF and the two compressor threads; TLC-enumerated single-stream cases
(chunk script x ticks per gap) are combined into groups and replayed through the real process_reader /
Compressor under virtual time; real child processes write hostile outputs end-to-end; LogsJudge.tla judges."""
import base64, hashlib, json, os, random, subprocess, tempfile, shutil, time
from concurrent.futures import ThreadPoolExecutor
import vlib, fixture, runlib

STDOUT_HDR = "[monorail | \x1b[38;5;81mstdout.zst\x1b[0m | %s | %s]\n"
STDERR_HDR = "[monorail | \x1b[38;5;214mstderr.zst\x1b[0m | %s | %s]\n"


def logs_cfg(s, maxticks, survives=True):
    return ("CONSTANTS S = %d\n Scripts <- MCScripts\n MaxTicks = %d\n PartialSurvivesTick = %s\nSPECIFICATION Spec\n"
            "INVARIANTS ByteExact FilePrefix Isolation\nCHECK_DEADLOCK FALSE\n") % (s, maxticks, "TRUE" if survives else "FALSE")


def unzst(bins, path):
    p = subprocess.run([bins["vinproc"], "unzst", path], stdout=subprocess.PIPE, stderr=subprocess.PIPE)
    return p.stdout if p.returncode == 0 else None


def payload(kind, rng, ident):
    """Returns list of steps writing a hostile output on one stream, and the bytes written."""
    def chunk(b):
        return {"op": "out", "b64": base64.b64encode(b).decode()}
    tag = ("<%s>" % ident).encode()
    if kind == "text":
        lines = [tag + b" line %d\n" % i for i in range(rng.randint(1, 30))]
        return [chunk(l) for l in lines], b"".join(lines)
    if kind == "no_trailing_newline":
        b = tag + b" first\n" + tag + b" last without newline"
        return [chunk(b)], b
    if kind == "pause_mid_line":
        a, c = tag + b" AAA", b"BBB tail\n"
        ms = rng.choice([560, 620, 700, 1150])
        return [chunk(a), {"op": "sleep", "ms": ms}, chunk(c)], a + c
    if kind == "pause_mid_line_twice":
        a, b_, c = tag + b" one", b" two", b" three\nrest"
        return [chunk(a), {"op": "sleep", "ms": 600}, chunk(b_), {"op": "sleep", "ms": 600}, chunk(c)], a + b_ + c
    if kind == "binary":
        data = bytes(rng.getrandbits(8) for _ in range(rng.randint(100, 5000))) + b"\x00\xff\xfe\n\x00"
        return [chunk(data[i:i + 997]) for i in range(0, len(data), 997)], data
    if kind == "long_line":
        n = rng.choice([70000, 300000, 1500000])
        data = tag + (b"L" * n) + b"\n" + tag + b" after\n"
        return [chunk(data[i:i + 65536]) for i in range(0, len(data), 65536)], data
    if kind == "many_short":
        lines = b"".join(tag + b"%d\n" % i for i in range(20000))
        return [chunk(lines[i:i + 50000]) for i in range(0, len(lines), 50000)], lines
    if kind == "byte_at_a_time":
        data = tag + b" slow\nxy"
        steps = []
        for i in range(len(data)):
            steps.append(chunk(data[i:i + 1]))
            if i % 5 == 4:
                steps.append({"op": "sleep", "ms": 130})
        return steps, data
    if kind == "big_incompressible":
        # several zstd blocks of data that does not compress: exercises partial writes of the encoder
        n = rng.choice([200 * 1024, 700 * 1024, 2 * 1024 * 1024])
        raw = rng.randbytes(n * 3 // 4)
        import base64 as _b
        text = _b.b64encode(raw)
        data = b"\n".join(text[i:i + 4000] for i in range(0, len(text), 4000)) + b"\n"
        return [chunk(data[i:i + 65536]) for i in range(0, len(data), 65536)], data
    if kind == "big_binary_one_line":
        data = rng.randbytes(rng.choice([150 * 1024, 400 * 1024])).replace(b"\n", b"\x00") + b"\n"
        return [chunk(data[i:i + 65536]) for i in range(0, len(data), 65536)], data
    if kind == "short_then_long":
        # short lines followed by lines far beyond any internal batching threshold, written in one go
        parts = [tag + b" start\n", tag + b" two\n", tag + b"S" * 48000 + b"\n", tag + b" mid\n", tag + b"T" * 70000 + b"\n",
                 tag + b"U" * 33000 + b"\n", tag + b" end\n"]
        data = b"".join(parts)
        return [chunk(data)], data
    if kind == "megabytes_text":
        line = tag + b" " + b"0123456789abcdef" * 6 + b"\n"
        data = line * (3 * 1024 * 1024 // len(line))
        return [chunk(data[i:i + 262144]) for i in range(0, len(data), 262144)], data
    if kind == "empty":
        return [], b""
    raise ValueError(kind)


KINDS = ["text", "no_trailing_newline", "pause_mid_line", "pause_mid_line_twice", "binary", "long_line", "many_short",
         "byte_at_a_time", "empty", "big_incompressible", "big_binary_one_line", "short_then_long"]


def repeat_unique(text, times):
    """What the helper's out_repeat step writes with "unique": true (same xorshift generator)."""
    M = (1 << 64) - 1
    x = 0x9E3779B97F4A7C15
    out = []
    for i in range(times):
        x ^= (x << 13) & M
        x ^= x >> 7
        x ^= (x << 17) & M
        rot = ((x << 29) | (x >> 35)) & M
        out.append("%08d %016x%016x %s" % (i, x, rot, text))
    return "".join(out).encode()


def stalled_listener_scenario(bins, idx, rng, mib=12):
    """A listener that stops reading while one task has megabytes to say and another writes a little, pauses and writes a
    little more before it exits 0: everything blocks until the listener goes away; what is stored must still be every byte
    each task wrote."""
    import signal
    import tail as taillib
    targets = [{"path": "filler"}, {"path": "app"}, {"path": "late", "uses": ["app", "filler"]}]
    fx = fixture.Fixture(bins, targets)
    try:
        line = "filler line with some text to make it longer %s\n" % ("y" * 40)
        times = mib * 1024 * 1024 // (len(line) + 42)
        tail_text = "".join("app tail line %04d %s\n" % (i, "t" * 30) for i in range(400))
        # causal, not timed: the filler announces when most of its output has been taken off its hands (more than the
        # socket towards the stopped listener holds is still to come); only then does `app` write its tail and exit
        fx.add_cmd("filler", "build", [{"op": "out", "text": "filler starts\n"}, {"op": "out_repeat", "text": line, "times": times, "unique": True},
                                       {"op": "touch", "path": "filler-most"},
                                       {"op": "out_repeat", "text": line, "times": times * 3, "unique": True},
                                       {"op": "out", "stream": "stderr", "text": "filler done\n"}, {"op": "exit", "code": 0}], ext=".sh")
        fx.add_cmd("app", "build", [{"op": "out", "text": "app first line\n"}, {"op": "touch", "path": "app-first"},
                                    {"op": "wait", "paths": ["filler-most"], "timeout_ms": 60000}, {"op": "sleep", "ms": 1500},
                                    # one more short line, and time for it to be flushed: the reader of this task is now stuck
                                    # handing that line to the stopped listener, and what follows stays in the pipe
                                    {"op": "out", "text": "app second line\n"}, {"op": "sleep", "ms": 1700},
                                    {"op": "out", "text": tail_text}, {"op": "out", "stream": "stderr", "text": "app err\n"}, {"op": "exit", "code": 0}], ext=".sh")
        fx.add_cmd("late", "build", [{"op": "out", "text": "late\n"}, {"op": "exit", "code": 0}], ext=".sh")
        written = {("filler", "stdout"): b"filler starts\n" + repeat_unique(line, times) + repeat_unique(line, times * 3), ("filler", "stderr"): b"filler done\n",
                   ("app", "stdout"): b"app first line\napp second line\n" + tail_text.encode(), ("app", "stderr"): b"app err\n",
                   ("late", "stdout"): b"late\n", ("late", "stderr"): b""}
        fx.git_init()
        lst = taillib.Listener(fx, {"stdout": True, "stderr": True})
        if not lst.ready:
            raise vlib.ToolError("listener did not come up")
        p = fx.spawn(["run", "-c", "build"])
        deadline = time.time() + 30
        while not os.path.exists(fx.marker("app-first")) and time.time() < deadline and p.poll() is None:
            time.sleep(0.01)
        os.killpg(lst.p.pid, signal.SIGSTOP)
        # the listener stays stopped until `app` has exited and then some seconds more (whatever patience a reader might
        # have with a blocked stream runs out meanwhile)
        app_ended = fx.marker("ended-%s" % fx.key_of("app", "build"))
        deadline = time.time() + 90
        while not os.path.exists(app_ended) and time.time() < deadline and p.poll() is None:
            time.sleep(0.02)
        time.sleep(4.0)
        lst.kill()
        try:
            so, se = p.communicate(timeout=200)
        except subprocess.TimeoutExpired:
            fx.kill_group(p)
            raise vlib.ToolError("run did not finish after the stalled listener was killed")
        if p.returncode is not None and p.returncode < 0:
            raise vlib.ToolError("run was killed by signal %d" % -p.returncode)
        res = fx._result(p.returncode, so, se)
        run_dir = res["out"]["out"]["run"]["path"] if isinstance(res["out"], dict) and "out" in res["out"] else None
        tasks = []
        for (tp, stream), data in sorted(written.items()):
            h = hashlib.sha256(tp.encode()).hexdigest()
            stored = unzst(bins, os.path.join(run_dir, "build", h, stream + ".zst")) if run_dir else None
            eq = stored is not None and stored == data
            first_diff = -1
            if stored is not None and not eq:
                first_diff = next((i for i in range(min(len(stored), len(data))) if stored[i] != data[i]), min(len(stored), len(data)))
            tasks.append({"target": runlib.P(tp), "stream": stream, "kind": "stalled_listener", "ran": True, "written_len": len(data), "filters_ok": True,
                          "stored_len": len(stored) if stored is not None else -1, "stored_equal": eq, "first_diff": first_diff,
                          "foreign": False, "shown": False, "show_equal": True})
        return {"ev": "e2e", "scenario": idx, "rc": res["rc"] if res["rc"] is not None else -9, "want_rc": 0, "tasks": tasks,
                "stderr": res["stderr"].decode("utf-8", "replace")[-300:]}
    finally:
        fx.cleanup()


def behind_compressor_scenario(bins, idx, rng, mib=64):
    """One member of a group hands the compressor tens of megabytes at the very end; its siblings write their last bytes
    right after that and exit.  When the group is joined the compressor is still well behind: whatever it has queued is
    still part of the logs."""
    targets = [{"path": "big"}] + [{"path": "s%d" % i} for i in range(1, 4)]
    fx = fixture.Fixture(bins, targets)
    try:
        line = "bulk %s\n" % ("q" * 20)
        times = mib * 1024 * 1024 // (len(line) + 42)
        fx.add_cmd("big", "build", [{"op": "out", "text": "big starts\n"}, {"op": "sleep", "ms": 560},
                                    {"op": "out_repeat", "text": line, "times": times, "unique": True}, {"op": "touch", "path": "big-wrote"},
                                    {"op": "exit", "code": 0}], ext=".sh")
        written = {("big", "stdout"): b"big starts\n" + repeat_unique(line, times), ("big", "stderr"): b""}
        for t in targets[1:]:
            tp = t["path"]
            fx.add_cmd(tp, "build", [{"op": "out", "text": "%s head\n" % tp}, {"op": "wait", "paths": ["big-wrote"], "timeout_ms": 120000},
                                     {"op": "out", "text": "%s tail after the big one\n" % tp}, {"op": "out", "stream": "stderr", "text": "%s err tail\n" % tp},
                                     {"op": "exit", "code": 0}], ext=".sh")
            written[(tp, "stdout")] = ("%s head\n%s tail after the big one\n" % (tp, tp)).encode()
            written[(tp, "stderr")] = ("%s err tail\n" % tp).encode()
        fx.git_init()
        res = fx.monorail(["run", "-c", "build"], timeout=240)
        run_dir = res["out"]["out"]["run"]["path"] if isinstance(res["out"], dict) and "out" in res["out"] else None
        tasks = []
        for (tp, stream), data in sorted(written.items()):
            h = hashlib.sha256(tp.encode()).hexdigest()
            stored = unzst(bins, os.path.join(run_dir, "build", h, stream + ".zst")) if run_dir else None
            eq = stored is not None and stored == data
            first_diff = -1
            if stored is not None and not eq:
                first_diff = next((i for i in range(min(len(stored), len(data))) if stored[i] != data[i]), min(len(stored), len(data)))
            tasks.append({"target": runlib.P(tp), "stream": stream, "kind": "behind_compressor", "ran": True, "written_len": len(data), "filters_ok": True,
                          "stored_len": len(stored) if stored is not None else -1, "stored_equal": eq, "first_diff": first_diff,
                          "foreign": False, "shown": False, "show_equal": True})
        return {"ev": "e2e", "scenario": idx, "rc": res["rc"] if res["rc"] is not None else -9, "want_rc": 0, "tasks": tasks,
                "stderr": res["stderr"].decode("utf-8", "replace")[-300:]}
    finally:
        fx.cleanup()


def e2e_scenario(bins, idx, ntargets, rng, kinds=None, failing=False, listener=False, repeat=False):
    """listener: a `log tail` listener is attached while the run writes (what is stored must not depend on it).
    repeat: the command is given twice (`-c build build`): the same (command, target) executes twice in one run and writes
    less the second time; the stored log is the one of the execution that ran last."""
    names = runlib.NAMES
    targets = [{"path": names[i % len(names)] + ("" if i < len(names) else str(i))} for i in range(ntargets)]
    # every fourth scenario: the run's slot was used before by a run of ANOTHER command over the same targets
    # (max_retained_runs = 1): nothing of that run may show up in this run's logs
    prelude = (idx % 4 == 2)
    fx = fixture.Fixture(bins, targets, max_retained_runs=1 if prelude else None)
    try:
        written = {}
        if prelude:
            for t in targets:
                fx.add_cmd(t["path"], "prelude", [{"op": "out", "text": "".join("prelude <%s> out %d\n" % (t["path"], i) for i in range(200))},
                                                   {"op": "out", "stream": "stderr", "text": "prelude <%s> err\n" % t["path"]}, {"op": "exit", "code": 0}], ext=".sh")
        for t in targets:
            steps = []
            for stream in ("stdout", "stderr"):
                kind = rng.choice(kinds or KINDS)
                st, data = payload(kind, rng, "%s:%s" % (t["path"], stream))
                if repeat:
                    first = "".join("first pass <%s:%s> line %d %s\n" % (t["path"], stream, i, "z" * (i % 50)) for i in range(rng.choice([40, 400, 3000])))
                    second = "second pass <%s:%s>%s" % (t["path"], stream, rng.choice(["\n", "", "\nshort\n"]))
                    st, data, kind = [{"op": "out_by_count", "counter": stream, "texts": [first, second]}], second.encode(), "repeat"
                for s in st:
                    if s.get("op") in ("out", "out_by_count"):
                        s["stream"] = stream
                steps_stream = st
                written[(t["path"], stream)] = (data, kind)
                steps.append(steps_stream)
            # interleave the two streams' steps
            a, b = steps
            merged = []
            while a or b:
                if a and (not b or rng.random() < 0.5):
                    merged.append(a.pop(0))
                else:
                    merged.append(b.pop(0))
            # in a failing scenario the last target exits non-zero right after every sibling has ended: the siblings ran
            # to completion, but megabytes of their output may still be queued for the compressor at that moment
            is_failing = failing and t is targets[-1]
            if is_failing:
                merged.append({"op": "wait", "tasks": [["build", o["path"], "ended"] for o in targets[:-1]], "timeout_ms": 60000})
            merged.append({"op": "exit", "code": 3 if is_failing else 0})
            fx.add_cmd(t["path"], "build", merged, ext=".sh")
        for t in targets:
            path, tdir, key = fx.cmd_files[(t["path"], "build")]
            with open(os.path.join(fx.hdir, "scripts", key + ".json")) as fh:
                sc = json.load(fh)
            sc["steps"] = runlib._resolve_steps(fx, {}, sc["steps"])
            with open(os.path.join(fx.hdir, "scripts", key + ".json"), "w") as fh:
                json.dump(sc, fh)
        fx.git_init()
        lst = None
        if listener:
            import tail as taillib
            lst = taillib.Listener(fx, [{"stdout": True, "stderr": True}, {"stdout": True}, {"stderr": True, "targets": [targets[0]["path"]]}][(idx // 2) % 3])
            if not lst.ready:
                raise vlib.ToolError("listener did not come up")
        if prelude:
            fx.monorail(["run", "-c", "prelude"], timeout=240)
        res = fx.monorail(["run", "-c", "build"] + (["build"] if repeat else []), timeout=240)
        if lst is not None:
            lst.kill()
        tasks = []
        run_dir = None
        if isinstance(res["out"], dict) and "out" in res["out"]:
            run_dir = res["out"]["out"]["run"]["path"]
        completed = set()
        if isinstance(res["out"], dict):
            for cr in res["out"].get("results", []):
                for g in cr.get("target_groups", []):
                    for tp, v in g.items():
                        if v.get("status") == "success" or (v.get("status") == "error" and v.get("code") is not None):
                            completed.add(tp)
        # log show, all streams
        show = fx.monorail(["log", "show", "--stdout", "--stderr"], timeout=240)
        shown = show["stdout"]
        all_written = {k: v[0] for k, v in written.items()}
        headers = {}
        for (tp, stream) in written:
            hdr = (STDOUT_HDR if stream == "stdout" else STDERR_HDR) % (tp, "build")
            headers[(tp, stream)] = hdr.encode()
        # filtered log show: stream and target filters
        tlist = sorted({tp for (tp, _s) in written})
        filt_specs = [(["--stdout"], lambda tp, s: s == "stdout"),
                      (["--stderr", "-t", tlist[0]], lambda tp, s: s == "stderr" and tp == tlist[0]),
                      (["--stdout", "--stderr", "-c", "build", "-t"] + tlist[:2], lambda tp, s: tp in tlist[:2]),
                      (["--stdout", "--stderr", "-c", "nosuchcommand"], lambda tp, s: False)]
        filt_out = []
        for fargs, adm in filt_specs:
            fr = fx.monorail(["log", "show"] + fargs, timeout=240)
            filt_out.append((fr["stdout"], adm))
        for (tp, stream), (data, kind) in sorted(written.items()):
            h = hashlib.sha256(tp.encode()).hexdigest()
            stored = None
            if run_dir:
                stored = unzst(bins, os.path.join(run_dir, "build", h, stream + ".zst"))
            eq = stored is not None and stored == data
            first_diff = -1
            if stored is not None and not eq:
                first_diff = next((i for i in range(min(len(stored), len(data))) if stored[i] != data[i]), min(len(stored), len(data)))
            # foreign: a tag of another task's stream inside this log
            foreign = False
            if stored:
                for (tp2, s2) in written:
                    if (tp2, s2) != (tp, stream) and ("<%s:%s>" % (tp2, s2)).encode() in stored:
                        foreign = True
            # log show: header followed by exactly the bytes, up to the next header or the end
            shown_flag, show_eq = False, False
            if data:
                hdr = headers[(tp, stream)]
                pos = shown.find(hdr)
                shown_flag = True
                if pos >= 0:
                    rest = shown[pos + len(hdr):]
                    show_eq = rest.startswith(data) and (len(rest) == len(data) or any(rest[len(data):].startswith(h2) for h2 in headers.values()))
            filters_ok = True
            if data:
                hdr = headers[(tp, stream)]
                for fout, adm in filt_out:
                    pos = fout.find(hdr)
                    if adm(tp, stream):
                        rest = fout[pos + len(hdr):] if pos >= 0 else b""
                        if pos < 0 or not rest.startswith(data):
                            filters_ok = False
                    elif pos >= 0:
                        filters_ok = False
            tasks.append({"target": runlib.P(tp), "stream": stream, "kind": kind, "ran": tp in completed, "written_len": len(data), "filters_ok": filters_ok,
                          "stored_len": len(stored) if stored is not None else -1, "stored_equal": eq, "first_diff": first_diff,
                          "foreign": foreign, "shown": shown_flag, "show_equal": show_eq})
        # `log show` shows this run's tasks and nothing else: every header in its output names a (target, command) of the run
        import re as _re
        stale = [m.group(0) for m in _re.finditer(rb"(?m)^\[monorail \| \x1b\[38;5;(?:81|214)m(?:stdout|stderr)\.zst\x1b\[0m \| [^\n]* \| [^\n|]*\]$", shown)
                 if m.group(0) + b"\n" not in headers.values()]
        if stale and tasks:
            for t in tasks:
                if t["shown"]:
                    t["show_equal"] = False
                    t["stale_headers"] = len(stale)
                    break
        return {"ev": "e2e", "scenario": idx, "rc": res["rc"] if res["rc"] is not None else -9, "want_rc": 1 if failing else 0, "tasks": tasks,
                "stderr": res["stderr"].decode("utf-8", "replace")[-300:]}
    finally:
        fx.cleanup()


def run(pid, tier):
    chk = vlib.Check(pid, tier, "model_checking")
    bins = vlib.build()
    rng = random.Random(chk.seed)
    # ---- model: all interleavings
    for name, s, mt in ([("2 streams, 5 scripts, 2 ticks", 2, 2)] if tier == "quick" else
                        [("2 streams, 5 scripts, 3 ticks", 2, 3), ("3 streams (two share a thread), 5 scripts, 2 ticks", 3, 2)]):
        r = vlib.tlc("mc/MCLogs", logs_cfg(s, mt), workers=8 if tier == "quick" else 12, timeout=3000, xmx="16g")
        if r.violated:
            chk.model_violation("MCLogs " + name, r)
        vlib.require_ok(r, "MCLogs")
        chk.add_model("MCLogs/Logs", r, name)
    # ---- single-stream cases from the specification
    r = vlib.tlc("mc/MCLogCases", "CONSTANTS MaxGapTicks = 2\nSPECIFICATION LSpec\nINVARIANT LEmit\nCHECK_DEADLOCK FALSE\n",
                 workers=1, timeout=300)
    vlib.require_ok(r, "MCLogCases")
    chk.add_model("MCLogCases", r)
    singles = r.printed("CASE")
    if len(singles) < 100:
        raise vlib.ToolError("too few log cases")
    groups = [{"streams": [c]} for c in singles]
    ngroups = 1500 if tier == "quick" else 30000
    for i in range(ngroups):
        k = rng.choice([2, 2, 3, 4, 4, 6, 8])
        groups.append({"streams": [rng.choice(singles) for _ in range(k)]})
    tmp = tempfile.mkdtemp(prefix="verif-logs-")
    try:
        cp = os.path.join(tmp, "cases.ndjson")
        with open(cp, "w") as f:
            for g in groups:
                f.write(json.dumps(g) + "\n")
        p = subprocess.run([bins["vinproc"], "capture", "--cases", cp, "--out", os.path.join(tmp, "rec.ndjson"), "--work",
                            os.path.join(tmp, "w"), "--threads", str(vlib.NCPU)], stdout=subprocess.PIPE, stderr=subprocess.PIPE, text=True)
        if p.returncode != 0:
            raise vlib.ToolError("vinproc capture failed: " + p.stderr[-1500:])
        recs = [json.loads(l) for l in open(os.path.join(tmp, "rec.ndjson"))]
    finally:
        shutil.rmtree(tmp, ignore_errors=True)
    # ---- end to end with real children
    ne = 10 if tier == "quick" else 150
    sizes = [1, 2, 3, 5, 8, 12, 20, 30]
    def one(i):
        rr = random.Random(chk.seed * 101 + i)
        if i == 0:
            return e2e_scenario(bins, i, 3, rr, kinds=["pause_mid_line", "pause_mid_line_twice", "byte_at_a_time"])
        if i == 1:
            return e2e_scenario(bins, i, 2, rr, kinds=["big_incompressible", "big_binary_one_line", "no_trailing_newline"])
        if i == 2:
            return e2e_scenario(bins, i, 2, rr, kinds=["short_then_long"])
        if i in (3, 4):
            # a group in which one task fails while megabytes of output are still queued for the compressor
            return e2e_scenario(bins, i, 6 if i == 3 else 3, rr, kinds=["megabytes_text", "big_incompressible"], failing=True)
        if i == 7:
            return stalled_listener_scenario(bins, i, rr)
        if i == 8:
            return behind_compressor_scenario(bins, i, rr)
        if i == 5:
            # a listener is attached while tasks write output that ends in the middle of a line
            return e2e_scenario(bins, 6, 3, rr, kinds=["no_trailing_newline", "no_trailing_newline", "pause_mid_line"], listener=True)
        if i == 6:
            # the same (command, target) executes twice in one run, writing less the second time
            return e2e_scenario(bins, i, 3, rr, repeat=True)
        if i > 9 and i % 9 == 0:
            return e2e_scenario(bins, i, sizes[i % len(sizes)], rr, listener=True)
        if i > 9 and i % 11 == 0:
            return e2e_scenario(bins, i, 1 + i % 4, rr, repeat=True)
        return e2e_scenario(bins, i, sizes[i % len(sizes)], rr)
    with ThreadPoolExecutor(max_workers=6) as ex:
        e2e = list(ex.map(one, range(ne)))
    allrecs = recs + [{k: v for k, v in r.items() if k != "stderr"} for r in e2e]
    fails, st, tr = vlib.judge("LogsJudge", allrecs, shards=min(8, max(1, len(allrecs) // 300)))
    chk.cov["states"] += st
    chk.cov["transitions"] += tr
    chk.cov["traces_validated_against_impl"] = len(allrecs)
    chk.cov["evaluations"] = len(allrecs)
    chk.cov["virtual_time_captures"] = len(recs)
    chk.cov["end_to_end_runs"] = len(e2e)
    chk.cov["end_to_end_streams"] = sum(len(r["tasks"]) for r in e2e)
    chk.cov["distinct_nontrivial"] = len({json.dumps(r["streams"]) for r in recs if any(any(g > 0 for g in s["gaps"]) and s["chunks"] for s in r["streams"])})
    chk.cov["rule"] = ("captures = every single-stream case (chunk script x 0..2 flush ticks per gap, TLC-enumerated) alone and in seeded "
                       "groups of 2-8 streams sharing the two compressor threads, replayed through the real process_reader/Compressor "
                       "under virtual time; end-to-end = real children writing text, binary, 1.5 MB lines, 20 000 short lines, no trailing "
                       "newline, pauses inside a line straddling the 500 ms flush, groups of 1-30 tasks; non-trivial = a flush tick "
                       "falls between two writes of a stream")
    for rec, why in fails:
        sig = why
        desc = why
        if rec["ev"] == "e2e":
            bad = [t for t in rec["tasks"] if not t["stored_equal"] or t["foreign"] or (t["shown"] and not t["show_equal"])]
            desc = "%s (scenario %s; e.g. %s)" % (why, rec["scenario"], json.dumps(bad[:1]))
        chk.violation(sig, desc, rec)
    for r in recs:
        if len(r["streams"]) >= 2 and any(any(g > 0 for g in s["gaps"]) for s in r["streams"]):
            chk.sample(r, limit=2)
    chk.assumptions += ["verif::capture mirrors the wiring of one target group in process_plan (Compressor with 2 threads, registration "
                        "order stdout/stderr per target, End on EOF, Shutdown to every client); the end-to-end runs exercise the real wiring",
                        "byte equality of large/binary outputs is computed by the harness (booleans asserted by the judge)",
                        "real sleeps are used only in end-to-end scenarios, with >= 60 ms margin to the 500 ms flush period; verdicts never "
                        "depend on which side of a tick a write fell"]
    return chk.finish()


def replay(pid, path):
    obj = json.load(open(path))
    rec = {k: v for k, v in obj["replay"].items() if k != "stderr"}
    fails, _, _ = vlib.judge("LogsJudge", [rec], shards=1)
    if fails:
        print("REPLAY: record still rejected: %s" % fails[0][1])
        print("VIOLATION property=%s replay=%s" % (pid, path))
        return 1
    print("REPLAY: record accepted")
    return 0
