"""Driving `monorail run` scenarios on throw-away repositories and recording what happened
(helper start/end events, result document, exit status) as records for RunJudge.tla."""
import json, os, time, random
import fixture, vlib

# the fourth name is long and not ASCII (1 ASCII byte + 45 two-byte characters = 91 bytes: byte offsets such as 48, 64
# or len-45 fall inside a character)
NAMES = ["app", "App", "app2", "app-web", "x" + "обработка" * 5, "ap", "lib", "lib2", "core", "core.x", "srv", "srv_b", "x", "xy"]


def P(path):
    # (a trailing slash does not change which directory a path names)
    return (path.rstrip("/") or path).split("/")


def cfg_abs(targets):
    return {"targets": [{"path": P(t["path"]), "uses": [P(u) for u in t.get("uses", [])],
                         "ignores": [P(u) for u in t.get("ignores", [])]} for t in targets]}


def doc_abs(out, ncmd):
    if not isinstance(out, dict) or "results" not in out:
        return {"ok": False, "failed": False, "results": []}
    res = []
    for cr in out["results"]:
        groups = []
        for g in cr.get("target_groups", []):
            groups.append([{"t": P(t), "status": v.get("status", "?"), "code": v.get("code", -1) if v.get("code") is not None else -1}
                           for t, v in sorted(g.items())])
        res.append(groups)
    return {"ok": True, "failed": bool(out.get("failed")), "results": res}


def run_scenario(bins, sc, keep=False):
    """Build the repository, run, record. Returns (record, debug info)."""
    fx = fixture.Fixture(bins, sc["targets"], sequences=sc.get("sequences_cfg"),
                         max_retained_runs=sc.get("max_retained_runs"))
    try:
        cmds = sc["commands"]
        kinds = sc.get("kinds", {})
        for t in sc["targets"]:
            for c in cmds:
                kd = kinds.get("%s|%s" % (c, t["path"]), "def")
                steps = sc.get("scripts", {}).get("%s|%s" % (c, t["path"]), [{"op": "exit", "code": 0}])
                ext = sc.get("exts", {}).get(c, ".sh")
                if kd != "undef":
                    # noexec_later: executable now, made non-executable by an earlier command of the same run
                    fx.add_cmd(t["path"], c, _resolve_steps(fx, sc, steps), kind="def" if kd == "noexec_later" else kd, ext=ext,
                               cmd_dir=sc.get("cmd_dirs", {}).get(t["path"]), copy=(kd == "noexec_later"),
                               defpath=sc.get("defpaths", {}).get("%s|%s" % (c, t["path"])))
                    if kd in ("def", "noexec") and "%s|%s" % (c, t["path"]) in sc.get("symlinks", ()):
                        # the command file is a symbolic link to an executable (or non-executable) file kept elsewhere
                        if kd == "def":
                            link = fx.cmd_files[(t["path"], c)][0]
                        else:
                            cd = sc.get("cmd_dirs", {}).get(t["path"])
                            link = os.path.join(fx.repo, cd if cd else os.path.join(t["path"], "monorail", "cmd"), c + ext)
                        real = os.path.join(fx.repo, "shared-tools", "%s-%s" % (t["path"].replace("/", "_"), c))
                        os.makedirs(os.path.dirname(real), exist_ok=True)
                        os.replace(link, real)
                        os.symlink(real if (len(t["path"]) + len(c)) % 2 else os.path.relpath(real, os.path.dirname(link)), link)
        # an executable started in ANOTHER target's directory still says whose task it was started as (the helper knows
        # itself by executable and working directory): {"exe": repository-relative file, "target": t, "cmd": c}
        for d in sc.get("misplaced", []):
            k = fixture.helper_key(os.path.join(fx.wp, d["exe"]), os.path.join(fx.repo, d["target"]))
            with open(os.path.join(fx.hdir, "scripts", k + ".json"), "w") as f:
                json.dump({"id": {"cmd": d["cmd"], "target": d["target"]}, "steps": [{"op": "exit", "code": 0}]}, f)
        # scripts may reference other tasks' keys: resolve after all commands exist
        for t in sc["targets"]:
            for c in cmds:
                if (t["path"], c) in fx.cmd_files:
                    steps = sc.get("scripts", {}).get("%s|%s" % (c, t["path"]), [{"op": "exit", "code": 0}])
                    fx.set_script(t["path"], c, _resolve_steps(fx, sc, steps))
        fx.git_init()
        mode = sc["mode"]
        pre = {"targets": [], "groups": []}
        if mode == "changed":
            r = fx.monorail(["checkpoint", "update"])
            if r["rc"] != 0:
                raise vlib.ToolError("checkpoint update failed: %s" % r["stderr"][:300])
            for p in sc.get("edits", []):
                fp = os.path.join(fx.repo, p)
                os.makedirs(os.path.dirname(fp), exist_ok=True)
                with open(fp, "a") as f:
                    f.write("edit %s\n" % random.random())
        if mode in ("changed", "all"):
            r = fx.monorail(["analyze", "--target-groups"])
            if r["rc"] == 0 and r["out"]:
                pre = {"targets": [P(t) for t in r["out"].get("targets", [])],
                       "groups": [[P(t) for t in g] for g in r["out"].get("target_groups", []) or []]}
            else:
                pre = {"targets": [], "groups": [], "error": fx.err_type(r)[0]}
        args = ["run"]
        cli = sc.get("cli") or {"commands": cmds}
        if cli.get("sequences"):
            args += ["-s"] + cli["sequences"]
        if cli.get("commands"):
            args += ["-c"] + cli["commands"]
        if mode in ("targets", "targets_deps"):
            args += ["-t"] + sc["named"]
            if mode == "targets_deps":
                args.append("--deps")
        if sc.get("fou"):
            args.append("--fail-on-undefined")
        args += sc.get("extra_args", [])
        for pc in sc.get("pre_cmds", []):
            fx.monorail(pc)
        fx.reset_helper()
        listener = None
        if sc.get("listener"):
            import tail as taillib
            listener = taillib.Listener(fx, {"stdout": True, "stderr": True})
            if not listener.ready:
                raise vlib.ToolError("listener did not come up")
        if listener is not None and sc.get("listener") == "kill_mid":
            # the listener dies while executables are still writing: that is no failure of any executable
            import threading
            def kill_listener():
                deadline = time.time() + 25
                while time.time() < deadline:
                    if any(e["k"] == "start" for e in fx.events()):
                        break
                    time.sleep(0.01)
                time.sleep(sc.get("listener_kill_after_s", 0.8))
                listener.kill()
            threading.Thread(target=kill_listener, daemon=True).start()
        t0 = time.time()
        env = dict(sc.get("env") or {})
        hook_trace = os.path.join(fx.root, "hooks.ndjson")
        if sc.get("hook_trace"):
            env["MONORAIL_VERIF_TRACE"] = hook_trace
        watcher = None
        if sc.get("hold"):
            # park monorail at a hook point until the helpers have reached a given state (causal, not timed): the
            # marker appears once `until_ended` helper processes have exited
            import threading
            hold = sc["hold"]
            marker = os.path.join(fx.root, "hold-marker")
            env["MONORAIL_VERIF_DELAY"] = "%s:%d:@%s" % (hold["point"], hold.get("hit", 1), marker)
            def watch():
                deadline = time.time() + 25
                while time.time() < deadline:
                    if sum(1 for e in fx.events() if e["k"] == "end") >= hold["until_ended"]:
                        break
                    time.sleep(0.01)
                time.sleep(hold.get("settle_s", 0.25))      # monorail's own tasks notice the exits meanwhile
                with open(marker, "w"):
                    pass
            watcher = threading.Thread(target=watch, daemon=True)
            watcher.start()
        if sc.get("interrupt"):
            # a termination signal to monorail itself (not to its children) once some executables are running; the
            # parked executables are released a little later, so whatever monorail still does in between is observed
            import threading
            it = sc["interrupt"]
            def interrupt():
                deadline = time.time() + 25
                while time.time() < deadline:
                    if sum(1 for e in fx.events() if e["k"] == "start") >= it.get("after_started", 1):
                        break
                    time.sleep(0.01)
                time.sleep(it.get("delay_s", 0.05))
                live = [q for q in fx.procs if q.poll() is None]
                if live:
                    try:
                        os.kill(live[-1].pid, it["sig"])
                    except OSError:
                        pass
                time.sleep(it.get("release_after_s", 1.0))
                with open(fx.marker(it.get("marker", "sigrel")), "w"):
                    pass
            watcher = threading.Thread(target=interrupt, daemon=True)
            watcher.start()
        res = fx.monorail(args, env=env, timeout=sc.get("timeout", 150), prlimit=sc.get("prlimit"), allow_signal=bool(sc.get("interrupt")))
        if res["rc"] == 2 and b"Usage:" in (res.get("stderr") or b"") and not sc.get("expect_usage_error"):
            # the command line itself was refused: a mistake of the driver, not behaviour of a run
            raise vlib.ToolError("monorail refused the scenario's command line: %s" % res["stderr"].decode("utf-8", "replace")[:300])
        if watcher is not None:
            watcher.join(timeout=30)
        hooks = []
        if sc.get("hook_trace") and os.path.exists(hook_trace):
            with open(hook_trace) as f:
                hooks = sorted((json.loads(l) for l in f if l.strip()), key=lambda e: e["seq"])
        wall = time.time() - t0
        if listener is not None and listener.p.poll() is None:
            listener.kill()
        # wait for stragglers (cancelled siblings keep running after monorail exits)
        deadline = time.time() + sc.get("straggler_wait", 3.0)
        while time.time() < deadline:
            evs = fx.events()
            started = {e["key"] + str(e.get("pid")) for e in evs if e["k"] == "start"}
            ended = sum(1 for e in evs if e["k"] == "end")
            if ended >= len(started):
                break
            time.sleep(0.02)
        evs = fx.events()
        cmd_index = {c: i + 1 for i, c in enumerate(cmds)}
        # a command may be listed more than once: the k-th start (end) of one (command, target) belongs to the k-th
        # position of that command (executions of one pair never overlap unless something is wrong, which the rules see)
        positions = {}
        for i, c in enumerate(cmds):
            positions.setdefault(c, []).append(i + 1)
        seen = {}
        events = []
        for e in evs:
            ident = e.get("id") or {}
            c = cmd_index.get(ident.get("cmd"), 0)
            t = P(ident.get("target", "?"))
            pl = positions.get(ident.get("cmd"))
            if pl and len(pl) > 1 and e["k"] in ("start", "end", "barrier_timeout"):
                kk = (ident.get("cmd"), ident.get("target"), "start" if e["k"] == "start" else "end" if e["k"] == "end" else "bt")
                n = seen.get(kk, 0)
                seen[kk] = n + 1
                if e["k"] == "barrier_timeout":
                    n = max(0, seen.get((kk[0], kk[1], "start"), 1) - 1)
                c = pl[min(n, len(pl) - 1)]
            if e["k"] == "start":
                events.append({"k": "start", "c": c, "t": t, "code": 0})
            elif e["k"] == "end":
                events.append({"k": "end", "c": c, "t": t, "code": e.get("code", 0)})
            elif e["k"] == "barrier_timeout":
                events.append({"k": "barrier_timeout", "c": c, "t": t, "code": 0})
        all_paths = [t["path"] for t in sc["targets"]]
        rec = {"ev": "run", "cfg": cfg_abs(sc["targets"]), "mode": mode,
               "named": [P(x) for x in sc.get("named", [])], "pre": {"targets": pre["targets"], "groups": pre["groups"]},
               "ncmd": len(cmds), "fou": bool(sc.get("fou")),
               "kinds": [[i + 1, P(tp), kinds.get("%s|%s" % (c, tp), "def").replace("noexec_later", "noexec")] for i, c in enumerate(cmds) for tp in all_paths],
               "events": events, "rc": res["rc"] if res["rc"] is not None else -9,
               "doc": doc_abs(res["out"], len(cmds)), "timeout": bool(res.get("timeout")),
               "label": sc.get("label", "")}
        if rec["doc"]["ok"]:
            # the document names each command at its position
            rec["doc"]["names_ok"] = [cr.get("command") for cr in res["out"]["results"]] == list(cmds)
        if sc.get("project"):
            # a plan too wide for the judge is judged on a sub-plan: the record restricted to some of its targets (every
            # ordering rule speaks about pairs of tasks, so what holds of the run holds of its restriction)
            keep = {"/".join(P(x)) for x in sc["project"]}
            inn = lambda t: "/".join(t) in keep
            rec["cfg"] = {"targets": [dict(t, uses=[u for u in t["uses"] if "/".join(u[:1]) in keep or "/".join(u) in keep]) for t in rec["cfg"]["targets"] if inn(t["path"])]}
            rec["pre"] = {"targets": [t for t in rec["pre"]["targets"] if inn(t)], "groups": [g2 for g2 in ([t for t in g if inn(t)] for g in rec["pre"]["groups"]) if g2]}
            rec["kinds"] = [k for k in rec["kinds"] if inn(k[1])]
            rec["events"] = [e for e in rec["events"] if inn(e["t"])]
            if rec["doc"]["ok"]:
                rec["doc"]["results"] = [[g2 for g2 in ([e for e in g if inn(e["t"])] for g in cr) if g2] for cr in rec["doc"]["results"]]
            rec["projected_from"] = len(sc["targets"])
        if sc.get("interrupt"):
            rec["interrupted"] = True
        if sc.get("trust"):
            rec["trust"] = True
        dbg = {"stderr": res["stderr"].decode("utf-8", "replace")[-600:], "wall": wall, "args": args,
               "raw_events": evs if keep else None, "hooks": hooks, "out": res["out"], "cmds": cmds}
        return rec, dbg
    finally:
        fx.cleanup()


def _resolve_steps(fx, sc, steps):
    """Steps may name other tasks symbolically: {"op":"wait","tasks":[["cmd","target","started|ended"]..]}."""
    out = []
    for s in steps:
        if s.get("op") == "wait" and "tasks" in s:
            paths = []
            for c, t, what in s["tasks"]:
                if (t, c) in fx.cmd_files:
                    paths.append(fx.marker("%s-%s" % (what, fx.key_of(t, c))))
            s2 = {k: v for k, v in s.items() if k != "tasks"}
            s2["paths"] = paths
            out.append(s2)
        elif s.get("op") == "chmod" and "path_of" in s:
            c, t = s["path_of"]
            s2 = {k: v for k, v in s.items() if k != "path_of"}
            s2["path"] = fx.cmd_files[(t, c)][0] if (t, c) in fx.cmd_files else "/nonexistent"
            out.append(s2)
        else:
            out.append(s)
    return out


# ------------------------------------------------------------------ scenario builders
def targets_from_dag(nt, dep, names=None, rng=None):
    """Targets 1..nt with dependency pairs [t, u] (t depends on u), realised through `uses`
    (alternating between naming the target directory and a file inside it)."""
    names = names or NAMES
    rng = rng or random.Random(nt * 7919 + len(dep))
    paths = {i: names[(i - 1) % len(names)] + ("" if i <= len(names) else str(i)) for i in range(1, nt + 1)}
    # some dependencies are realised through NESTING instead of `uses`: v may live inside u when v depends on u and
    # everything that depends on v also depends on u (a path inside v lies inside u too); one level deep
    depset = set((t, u) for (t, u) in dep)
    nested, parents = {}, set()
    cands = [(v, u) for (v, u) in sorted(depset) if all((t, u) in depset for (t, w) in depset if w == v)]
    rng.shuffle(cands)
    for (v, u) in cands:
        if rng.random() < 0.5 and v not in nested and v not in parents and u not in nested:
            nested[v] = u
            parents.add(u)
    for v, u in nested.items():
        paths[v] = paths[u] + "/" + paths[v].replace("/", "_")
    ts = []
    for i in range(1, nt + 1):
        uses = []
        for (t, u) in dep:
            if t == i and nested.get(t) != u:
                if (t, nested.get(u)) in depset and (t + u) % 3 == 0:
                    continue        # the entry naming the nested target u brings its enclosing target along
                # the entry names the dependency's directory, a file in it, or a path in it that does not exist (yet)
                # ... or the directory written with a trailing slash or a trailing dot component
                uses.append([paths[u], paths[u] + "/src.txt", paths[u] + "/dist/out.bin", paths[u] + "/", paths[u] + "/."][(t + 2 * u) % 5])
        t = {"path": paths[i]}
        if uses:
            t["uses"] = uses
        ts.append(t)
    # declaration order is not dependency order: dependencies may be declared after their dependents
    rng.shuffle(ts)
    return ts, paths


EXIT_CODES = [1, 2, 3, 7, 100, 127, 255]


def scenario_from_behaviour(b, idx=0, rng=None, variant=0):
    """A TLC behaviour of RunImpl (plan + exit history) -> a concrete scenario that forces the same
    exit order and exit codes on the real system."""
    rng = rng or random.Random(idx)
    nt, ncmd = b["nt"], b["ncmd"]
    dep = [tuple(d) for d in b["dep"]]
    ts, paths = targets_from_dag(nt, dep, rng=rng)
    cmds = ["build", "test", "lint"][:ncmd]
    kinds = {}
    for c, t, kd in b["kinds"]:
        kinds["%s|%s" % (cmds[c - 1], paths[t])] = kd
    group_of = {}
    for gi, g in enumerate(b["groups"]):
        for t in g:
            group_of[t] = gi
    scripts = {}
    exits = [tuple(e) for e in b["exits"]]
    exited = set()
    prev = None
    for (c, t, code) in exits:
        steps = []
        # variant 2: a task that exits cleanly after a failing sibling of its group first detaches from the
        # capture pipes, so that its task completes normally instead of observing the cancellation
        after_fail = any(e[0] == c and e[2] != 0 and group_of.get(e[1]) == group_of.get(t) for e in exits[:exits.index((c, t, code))])
        if variant == 2 and code == 0 and after_fail:
            steps.append({"op": "out", "text": "early %s %s\n" % (cmds[c - 1], paths[t])})
            steps.append({"op": "close_output"})
        if prev is not None and prev[0] == c and group_of.get(prev[1]) == group_of.get(t):
            steps.append({"op": "wait", "tasks": [[cmds[prev[0] - 1], paths[prev[1]], "ended"]], "timeout_ms": 4000})
            if variant == 2 and code == 0 and after_fail:
                steps.append({"op": "sleep", "ms": 120})
        steps.append({"op": "out", "text": "out %s %s\n" % (cmds[c - 1], paths[t])})
        steps.append({"op": "exit", "code": 0 if code == 0 else EXIT_CODES[(idx + c + t) % len(EXIT_CODES)]})
        scripts["%s|%s" % (cmds[c - 1], paths[t])] = steps
        exited.add((c, t))
        prev = (c, t, code)
    # tasks that never exit in the model behaviour (cancelled siblings): outlive the failing sibling
    for c in range(1, ncmd + 1):
        for t in range(1, nt + 1):
            if (c, t) not in exited:
                fails = [e for e in exits if e[0] == c and e[2] != 0 and group_of.get(e[1]) == group_of.get(t)]
                steps = []
                if fails:
                    steps.append({"op": "wait", "tasks": [[cmds[c - 1], paths[fails[0][1]], "ended"]], "timeout_ms": 4000})
                    steps.append({"op": "sleep", "ms": 150})
                steps.append({"op": "exit", "code": 0})
                scripts["%s|%s" % (cmds[c - 1], paths[t])] = steps
    sc = {"targets": ts, "commands": cmds, "kinds": kinds, "fou": b["fou"], "scripts": scripts,
          "label": "tlc-behaviour-%d-v%d" % (idx, variant)}
    if variant == 1:
        # delay monorail's own bookkeeping between joining a result and acting on it (guarded point)
        sc["env"] = {"MONORAIL_VERIF_DELAY": "run.join_next:*:130"}
    if b["mode"] == "serial":
        order = [paths[list(g)[0]] for g in b["groups"]]
        sc["mode"] = "targets"
        sc["named"] = order
    else:
        # alternate between the ways of asking for "everything"
        k = idx % 3
        if k == 0:
            sc["mode"] = "all"
        elif k == 1:
            sc["mode"] = "changed"
            sc["edits"] = [paths[t] + "/src.txt" for t in range(1, nt + 1)]
        else:
            sc["mode"] = "targets_deps"
            sc["named"] = [paths[t] for t in range(1, nt + 1)]
    return sc


def random_scenario(seed, nt_range=(5, 12), fail_prob=0.35, slow_deps=True):
    """Independent driver: random DAG, random run times (dependencies slower than dependents), random
    failure positions and kinds."""
    rng = random.Random(seed)
    nt = rng.randint(*nt_range)
    dens = rng.uniform(0.1, 0.5)
    dep = [(t, u) for t in range(2, nt + 1) for u in range(1, t) if rng.random() < dens]
    ts, paths = targets_from_dag(nt, dep, rng=rng)
    # nest one target inside another sometimes (nesting is a dependency too)
    ncmd = rng.choice([1, 1, 2, 3, 4])
    cmds = ["build", "test", "lint", "check"][:ncmd]
    use_seq = ncmd >= 2 and rng.random() < 0.5
    kinds, scripts = {}, {}
    depth = {}
    def d(t):
        if t not in depth:
            depth[t] = 1 + max([d(u) for (x, u) in dep if x == t] + [0])
        return depth[t]
    maxd = max(d(t) for t in range(1, nt + 1))
    failing = rng.random() < fail_prob
    fail_task = (rng.randint(1, ncmd), rng.randint(1, nt)) if failing else None
    fail_kind = rng.choice(["exit", "exit", "noexec", "undef_fou"]) if failing else None
    fou = fail_kind == "undef_fou" or rng.random() < 0.2
    symlinks = []
    for ci, c in enumerate(cmds, 1):
        for t in range(1, nt + 1):
            key = "%s|%s" % (c, paths[t])
            kd = "def"
            if rng.random() < 0.12:
                kd = "undef"
            code = 0
            if fail_task == (ci, t):
                if fail_kind == "exit":
                    code = rng.choice(EXIT_CODES)
                    if rng.random() < 0.3:
                        code = -rng.choice([9, 15, 1, 2])      # the executable dies of a signal
                elif fail_kind == "noexec":
                    kd = "noexec"
                else:
                    kd = "undef"
            elif failing and rng.random() < 0.08:
                code = rng.choice(EXIT_CODES)
            kinds[key] = kd
            # dependencies (low depth) are slower than dependents
            ms = (maxd - d(t) + 1) * rng.randint(5, 40) if slow_deps else rng.randint(0, 60)
            steps = [{"op": "out", "text": "line 1 of %s\n" % key}, {"op": "sleep", "ms": ms},
                     {"op": "out", "stream": "stderr", "text": "err of %s\n" % key},
                     {"op": "exit", "code": code} if code >= 0 else {"op": "signal", "sig": -code}]
            scripts[key] = steps
            if (kd == "def" and rng.random() < 0.12) or (kd == "noexec" and rng.random() < 0.5):
                symlinks.append(key)        # a link to a non-executable file is as non-executable as the file itself
    sc = {"targets": ts, "commands": cmds, "kinds": kinds, "fou": fou, "scripts": scripts,
          "label": "random-%d" % seed, "symlinks": symlinks}
    if rng.random() < 0.35:
        # some targets keep their commands in a directory of their own choosing (a `commands` block in the configuration)
        sc["cmd_dirs"] = {}
        for t in rng.sample(ts, min(len(ts), rng.randint(1, 3))):
            d = t["path"] + "/" + rng.choice(["scripts", "tools/bin", "ci"])
            t["commands"] = {"path": d}
            sc["cmd_dirs"][t["path"]] = d
    if use_seq and ncmd >= 3:
        # two sequences, given in an order that is not the alphabetical order of their names, then --commands
        if ncmd >= 4:
            sc["sequences_cfg"] = {"zz-first": cmds[:1], "aa-second": cmds[1:2], "mm-third": cmds[2:ncmd - 1], "kk-unused": ["never"]}
            sc["cli"] = {"sequences": ["zz-first", "aa-second", "mm-third"], "commands": cmds[ncmd - 1:]}
        else:
            sc["sequences_cfg"] = {"zz-first": cmds[:1], "aa-second": cmds[1:ncmd - 1], "mm-unused": ["never"]}
            sc["cli"] = {"sequences": ["zz-first", "aa-second"], "commands": cmds[ncmd - 1:]}
    elif use_seq:
        sc["sequences_cfg"] = {"s1": cmds[:ncmd - 1]}
        sc["cli"] = {"sequences": ["s1"], "commands": cmds[ncmd - 1:]}
    m = rng.random()
    if m < 0.3:
        sc["mode"] = "all"
    elif m < 0.6:
        sc["mode"] = "changed"
        k = rng.randint(1, nt)
        sc["edits"] = [paths[t] + "/src.txt" for t in rng.sample(range(1, nt + 1), k)]
    elif m < 0.8:
        sc["mode"] = "targets_deps"
        sc["named"] = [paths[t] for t in rng.sample(range(1, nt + 1), rng.randint(1, min(3, nt)))]
    else:
        sc["mode"] = "targets"
        sc["named"] = [paths[t] for t in rng.sample(range(1, nt + 1), rng.randint(1, min(4, nt)))]
    r2 = random.Random(seed * 31 + 7)
    if r2.random() < 0.35:
        # other commands have been used in this repository before the run (whatever they leave behind must not matter)
        pre = [["run", "-c", cmds[0], "-t", paths[r2.randint(1, nt)], "--deps"], ["target", "show", "-g"], ["analyze", "--target-groups"]]
        r2.shuffle(pre)
        sc["pre_cmds"] = pre[: r2.randint(1, 2)]
    if sc["mode"] == "all" and r2.random() < 0.3:
        sc["extra_args"] = ["--begin", "HEAD"]        # without a checkpoint an explicit interval changes nothing: every target
    return sc


def barrier_scenario(size, position, seed=0, shared=False, chatty=False, linked=False, twice=False, deps_arg=False):
    """C16: a group of `size` members, each waiting until all the others have started.
    shared: every member resolves the command to the same executable file (a common command directory)."""
    rng = random.Random(seed)
    before = {"first": 0, "middle": 1, "last": 2}[position]
    after = {"first": 2, "middle": 1, "last": 0}[position]
    names = []
    ts = []
    chain_b = ["pre%d" % i for i in range(before)]
    chain_a = ["post%d" % i for i in range(after)]
    for i, n in enumerate(chain_b):
        t = {"path": n}
        if i > 0:
            t["uses"] = [chain_b[i - 1]]
        ts.append(t)
    members = ["m%02d" % i for i in range(size)]
    for m in members:
        t = {"path": m}
        if chain_b:
            t["uses"] = [chain_b[-1]]
        ts.append(t)
    for i, n in enumerate(chain_a):
        t = {"path": n, "uses": list(members) if i == 0 else [chain_a[i - 1]]}
        ts.append(t)
    cmds = ["build"]
    scripts = {}
    for m in members:
        scripts["build|" + m] = [{"op": "wait", "tasks": [["build", o, "started"] for o in members],
                                  "timeout_ms": 60000, "on_timeout": "barrier_timeout"},
                                 {"op": "out", "text": "member %s done\n" % m}, {"op": "exit", "code": 0}]
        if chatty:
            # every member first prints more than a pipe holds (on both streams) and only then announces itself: a member
            # whose output is not being read while another one runs never gets to announce itself
            scripts["build|" + m] = [{"op": "out_repeat", "text": "chatter of %s %s\n" % (m, "c" * 60), "times": 4000},
                                     {"op": "out_repeat", "stream": "stderr", "text": "stderr chatter of %s %s\n" % (m, "e" * 60), "times": 4000},
                                     {"op": "touch", "path": "announced-%s" % m},
                                     {"op": "wait", "paths": ["announced-%s" % o for o in members], "timeout_ms": 40000, "on_timeout": "barrier_timeout"},
                                     {"op": "exit", "code": 0}]
    sc = {"targets": ts, "commands": cmds, "kinds": {}, "fou": False, "scripts": scripts, "mode": "all",
          "label": "barrier-%d-%s%s%s" % (size, position, "-shared" if shared else "", "-chatty" if chatty else ""), "timeout": 170}
    if twice:
        # the command is listed twice: the group is a barrier on each pass (announce / wait per execution count)
        sc["commands"] = ["build", "build"]
        for m in members:
            sc["scripts"]["build|" + m] = [{"op": "arrive", "name": "bar-" + m, "peers": ["bar-" + o for o in members],
                                            "timeout_ms": 40000, "on_timeout": "barrier_timeout"},
                                           {"op": "out", "text": "member %s done\n" % m}, {"op": "exit", "code": 0}]
        sc["label"] += "-twice"
    if deps_arg:
        # the group is reached as the dependency closure of one named target, with a run-time argument
        sc["mode"], sc["named"], sc["extra_args"] = "targets_deps", [chain_a[0]], ["--args", "release"]
        sc["label"] += "-deps-arg"
    if linked:
        # every second member's command file is a symbolic link to an executable kept elsewhere in the repository
        sc["symlinks"] = ["build|" + m for m in members[::2]]
        sc["label"] += "-linked"
    if shared:
        for t in ts:
            if t["path"] in members:
                t["commands"] = {"path": "tools/cmd"}
        sc["cmd_dirs"] = {m: "tools/cmd" for m in members}
    return sc


def wide_scenario(width, seed=0, barrier=False, fail_at=None, mode="all"):
    """One group of `width` independent members between a base target and a top target. barrier: every member waits
    until all the others have started (C16). fail_at: index of a member that exits non-zero. Judged with the grouping
    printed by analyze as the plan's grouping (RunJudge Trusting)."""
    rng = random.Random(seed)
    members = ["w%03d" % i for i in range(width)]
    ts = [{"path": "base"}] + [{"path": m, "uses": ["base/src.txt" if i % 2 else "base"]} for i, m in enumerate(members)] \
        + [{"path": "top", "uses": list(members)}]       # every member is used by `top`: they all sit in one group
    rng.shuffle(ts)
    scripts = {}
    for i, m in enumerate(members):
        steps = []
        if barrier:
            steps.append({"op": "wait", "tasks": [["build", o, "started"] for o in members], "timeout_ms": 60000, "on_timeout": "barrier_timeout"})
        steps.append({"op": "exit", "code": 7 if fail_at == i else 0})
        scripts["build|" + m] = steps
    sc = {"targets": ts, "commands": ["build"], "kinds": {}, "fou": False, "scripts": scripts, "mode": mode, "trust": True,
          "label": "wide-%d%s%s" % (width, "-barrier" if barrier else "", "-fail" if fail_at is not None else ""), "timeout": 170}
    if mode == "changed":
        sc["edits"] = ["base/src.txt"]
    return sc


def wide_slow_scenario(width, seed=0, ms=2500):
    """C04 beyond any per-group quantity of a few hundred: `width` members in one group, ONE of them still working for a
    while after the others have finished; `top` depends on all of them, a second command follows."""
    rng = random.Random(seed)
    members = ["w%03d" % i for i in range(width)]
    ts = [{"path": m} for m in members] + [{"path": "top", "uses": list(members)}]
    rng.shuffle(ts)
    slow = rng.choice(members)
    scripts = {"build|" + slow: [{"op": "out", "text": "slow member\n"}, {"op": "sleep", "ms": ms}, {"op": "exit", "code": 0}]}
    return {"targets": ts, "commands": ["build", "test"], "kinds": {}, "fou": False, "scripts": scripts, "mode": "all",
            "project": [slow, "top"] + [m for m in members if m != slow][:4],
            "label": "wide-slow-%d" % width, "timeout": 200}


def listener_killed_scenario(seed=0, nt=3):
    """C06: a `log tail` listener is attached and dies while the executables are still printing: every executable exits 0,
    so nothing has failed -- all `success`, the next command runs, exit status 0."""
    rng = random.Random(seed)
    ts = [{"path": "t%d" % i} for i in range(nt)] + [{"path": "after", "uses": ["t0"]}]
    rng.shuffle(ts)
    scripts = {}
    for t in ts:
        steps = []
        for k in range(12):
            steps.append({"op": "out", "text": "".join("%s out %d.%d\n" % (t["path"], k, j) for j in range(20))})
            steps.append({"op": "out", "stream": "stderr", "text": "%s err %d\n" % (t["path"], k)})
            steps.append({"op": "sleep", "ms": 250})
        steps.append({"op": "exit", "code": 0})
        scripts["work|" + t["path"]] = steps
    return {"targets": ts, "commands": ["work", "then"], "kinds": {}, "fou": False, "scripts": scripts, "mode": "all",
            "listener": "kill_mid", "listener_kill_after_s": 0.9, "label": "listener-killed-%d" % seed, "timeout": 120}


def detached_output_scenario(seed=0, ms=3300):
    """C04: an executable that closes (redirects) both of its output streams and then keeps working for a while is still
    running: neither its dependents nor the next command may start before it has exited."""
    rng = random.Random(seed)
    ts = [{"path": "lib"}, {"path": "app", "uses": ["lib"]}, {"path": "tool"}]
    rng.shuffle(ts)
    scripts = {"build|lib": [{"op": "out", "text": "lib build starts\n"}, {"op": "close_output"}, {"op": "sleep", "ms": ms}, {"op": "exit", "code": 0}],
               "test|tool": [{"op": "close_output"}, {"op": "sleep", "ms": ms // 2}, {"op": "exit", "code": 0}]}
    return {"targets": ts, "commands": ["build", "test", "lint"], "kinds": {}, "fou": False, "scripts": scripts, "mode": "all",
            "label": "detached-output-%d" % ms}


def background_process_scenario(seed=0, hold_ms=4000):
    """C06: a command that starts a background process (which keeps the command's output pipes open) and exits 0, next to a
    sibling that is still running: nothing has failed - every entry is `success`, later commands run."""
    rng = random.Random(seed)
    ts = [{"path": "svc"}, {"path": "web"}, {"path": "top", "uses": ["svc", "web"]}]
    rng.shuffle(ts)
    scripts = {"start|svc": [{"op": "out", "text": "starting service\n"}, {"op": "background_hold", "ms": hold_ms}, {"op": "exit", "code": 0}],
               "start|web": [{"op": "sleep", "ms": hold_ms - 800}, {"op": "out", "text": "web ready\n"}, {"op": "exit", "code": 0}]}
    return {"targets": ts, "commands": ["start", "after"], "kinds": {}, "fou": False, "scripts": scripts, "mode": "all",
            "label": "background-process-%d" % hold_ms, "timeout": 120}


def chmod_scenario(seed=0):
    """C06: an earlier command of the same run takes the execute permission away from a later command's file: when that
    command is scheduled it lacks the permission - `not_executable`, failed, exit status 1, later commands skipped."""
    ts = [{"path": "pkg"}, {"path": "other"}]
    scripts = {"gen|pkg": [{"op": "chmod", "path_of": ["check", "pkg"], "mode": 0o644}, {"op": "exit", "code": 0}]}
    return {"targets": ts, "commands": ["gen", "check", "publish"], "kinds": {"check|pkg": "noexec_later"}, "fou": False, "scripts": scripts,
            "mode": "targets", "named": ["pkg"], "label": "chmod-mid-run"}


def late_success_scenario(nsib, seed=0, fail_first=True, sig=None):
    """C06: in one group one executable exits non-zero and the others exit 0 ON THEIR OWN right after it, all of them
    before the run's join loop looks at any result (the loop is parked at its first run.join_next until every member
    has exited). Whatever order the results are joined in, the run has failed: a later group must be skipped."""
    rng = random.Random(seed)
    members = ["m%d" % i for i in range(nsib + 1)]
    ts = [{"path": m} for m in members] + [{"path": "later", "uses": list(members)}, {"path": "last", "uses": ["later"]}]
    rng.shuffle(ts)
    bad = members[0]
    scripts = {}
    code = rng.choice(EXIT_CODES)
    for m in members:
        if m == bad:
            steps = [{"op": "out", "text": "bad member\n"}] + ([] if fail_first else [{"op": "wait", "tasks": [["build", o, "ended"] for o in members if o != bad], "timeout_ms": 8000}]) \
                    + [{"op": "exit", "code": code} if sig is None else {"op": "signal", "sig": sig}]
        else:
            steps = ([{"op": "wait", "tasks": [["build", bad, "ended"]], "timeout_ms": 8000}] if fail_first else []) + [{"op": "out", "text": "good member %s\n" % m}, {"op": "exit", "code": 0}]
        scripts["build|" + m] = steps
    return {"targets": ts, "commands": ["build"], "kinds": {}, "fou": False, "scripts": scripts, "mode": "all",
            "hold": {"point": "run.join_next", "hit": 1, "until_ended": len(members)},
            "label": "late-success-%d-%s%s" % (nsib, "failfirst" if fail_first else "faillast", "" if sig is None else "-signal%d" % sig)}


def interrupted_scenario(nmem, seed=0, sig=15):
    """C04 (and C05's "started only as planned"): a termination signal reaches monorail itself while the first group is
    executing.  Its executables keep running for a while (nobody signalled them).  Whatever monorail does with the signal,
    nothing that depends on them -- no later group, no later command -- may be started before they have exited."""
    rng = random.Random(seed)
    members = ["m%d" % i for i in range(nmem)]
    ts = [{"path": m} for m in members] + [{"path": "later", "uses": list(members)}, {"path": "last", "uses": ["later"]}]
    rng.shuffle(ts)
    scripts = {}
    for m in members:
        scripts["build|" + m] = [{"op": "out", "text": "member %s\n" % m}, {"op": "wait", "paths": ["sigrel"], "timeout_ms": 10000},
                                 {"op": "exit", "code": 0}]
    return {"targets": ts, "commands": ["build", "test"], "kinds": {}, "fou": False, "scripts": scripts, "mode": "all",
            "interrupt": {"sig": sig, "after_started": nmem, "release_after_s": 0.8, "marker": "sigrel"}, "straggler_wait": 6.0,
            "label": "interrupted-%d-signal%d" % (nmem, sig)}


def linked_noexec_scenario(seed=0, cmd_dir=False):
    """C06: the command file of one member is a symbolic link to a file WITHOUT execute permission (the link itself has
    mode 0777 like every link): it is as non-executable as a regular file without the bit -- reported `not_executable`,
    run failed, later group skipped."""
    rng = random.Random(seed)
    members = ["m0", "m1", "m2"]
    ts = [{"path": m} for m in members] + [{"path": "later", "uses": list(members)}]
    rng.shuffle(ts)
    bad = rng.choice(members)
    kinds = {"build|" + bad: "noexec"}
    sc = {"targets": ts, "commands": ["build", "test"], "kinds": kinds, "fou": False, "scripts": {}, "mode": "all",
          "symlinks": ["build|" + bad, "build|" + members[(members.index(bad) + 1) % 3]],
          "label": "linked-noexec-%d%s" % (seed, "-cmddir" if cmd_dir else "")}
    if cmd_dir:
        for t in ts:
            if t["path"] == bad:
                t["commands"] = {"path": bad + "/ci"}
        sc["cmd_dirs"] = {bad: bad + "/ci"}
    return sc


def shared_dir_definitions_scenario(seed=0, mode="all"):
    """C05: several targets keep their commands in ONE directory; that directory has no file for `build`, and exactly one
    target defines `build` by an explicit path of its own (`commands.definitions`).  Whether a target defines a command is
    a fact about that target: the one with the definition has its executable started once, the others are `undefined`
    and nothing is started in their directories -- whichever of them is planned first, and `test` (a file in the common
    directory) runs for all of them."""
    rng = random.Random(seed)
    names = ["svc-a", "svc-b", "svc-c", "svc-d"][: rng.choice([3, 4])]
    owner = rng.choice(names)
    own = owner + "/own/build-it.sh"
    ts = []
    for n in names:
        t = {"path": n, "commands": {"path": "tools/cmd"}}
        if n == owner:
            t["commands"]["definitions"] = {"build": {"path": own}}
        ts.append(t)
    rng.shuffle(ts)
    kinds = {"build|" + n: "undef" for n in names if n != owner}
    sc = {"targets": ts, "commands": ["build", "test"], "kinds": kinds, "fou": False, "scripts": {}, "mode": mode,
          "cmd_dirs": {n: "tools/cmd" for n in names}, "defpaths": {"build|" + owner: own},
          "misplaced": [{"exe": own, "target": n, "cmd": "build"} for n in names if n != owner],
          "label": "shared-dir-definitions-%d-%s" % (seed, mode)}
    if mode == "targets":
        sc["named"] = list(names)
    return sc


def repeated_commands_scenario(seed=0, how="commands", fail_second=False):
    """C05 / C06 / C04: one command listed more than once -- directly (`-c lint build lint test`), or because two sequences
    overlap, or a sequence and --commands.  Every occurrence is a position of its own: executed there, reported there,
    under its own name; a failure of the second occurrence is the second occurrence's."""
    rng = random.Random(seed)
    ts = [{"path": "base"}, {"path": "mid", "uses": ["base"]}, {"path": "top", "uses": ["mid/src.txt"]}, {"path": "solo"}]
    rng.shuffle(ts)
    cmds = ["lint", "build", "lint", "test"]
    scripts = {}
    for t in ts:
        for c in set(cmds):
            key = "%s|%s" % (c, t["path"])
            scripts[key] = [{"op": "out_by_count", "counter": "o", "texts": ["%s first pass\n" % key, "%s second pass\n" % key]},
                            {"op": "sleep", "ms": rng.randint(0, 40)}, {"op": "exit", "code": 0}]
    if fail_second:
        scripts["lint|mid"] = [{"op": "out", "text": "lint mid\n"}, {"op": "exit_by_count", "codes": [0, 3]}]
    sc = {"targets": ts, "commands": cmds, "kinds": {}, "fou": False, "scripts": scripts, "mode": "all",
          "label": "repeated-commands-%s-%d%s" % (how, seed, "-failsecond" if fail_second else "")}
    if how == "sequences":
        sc["sequences_cfg"] = {"quick": ["lint", "build"], "full": ["lint", "test"]}
        sc["cli"] = {"sequences": ["quick", "full"], "commands": []}
    elif how == "sequence_and_commands":
        sc["sequences_cfg"] = {"ci": ["lint", "build"]}
        sc["cli"] = {"sequences": ["ci"], "commands": ["lint", "test"]}
    return sc


def impl_trace(rec, dbg):
    """The internal hook events of one run as a trace for RunImplTrace.tla (first record: the plan as executed)."""
    out = dbg.get("out")
    if not (isinstance(out, dict) and out.get("results")):
        return None
    cmds = dbg["cmds"]
    groups = [sorted(g.keys()) for g in out["results"][0]["target_groups"]]
    req = sorted(t for g in groups for t in g)
    kinds = [[k[0], "/".join(k[1]), k[2]] for k in rec["kinds"] if "/".join(k[1]) in req]
    plan = {"ev": "plan", "ncmd": len(cmds), "req": req, "dep": [], "kinds": kinds, "fou": rec["fou"],
            "mode": "serial" if rec["mode"] == "targets" else "graph", "groups": groups}
    names = {"run.group_begin": "group_begin", "run.sched_failed": "sched_failed", "run.group_scheduled": "group_scheduled",
             "run.join_next": "join_next", "run.group_joined": "group_joined", "run.shutdown_send": "shutdown_send",
             "run.group_end": "group_end"}
    evs = [{"ev": names[h["point"]], "t": h.get("arg", "")} for h in dbg["hooks"] if h["point"] in names]
    statuses = []
    for ci, cr in enumerate(out["results"], 1):
        for g in cr["target_groups"]:
            for t, v in g.items():
                statuses.append([ci, t, v.get("status")])
    fin = {"ev": "finish", "t": "", "failed": bool(out.get("failed")), "rc": rec["rc"], "statuses": statuses}
    return [plan] + evs + [fin]
