"""./check selftest: model sharpness. Every defect switch of the specification, put in the as-was position,
must make TLC report the corresponding property violated; with the switch in the correct-design position
(what the registered checks use) the same instance must pass. A judge must reject a corrupted record."""
import json, sys
import vlib, group_b, group_c, store, logs, tail, configfile


def expect(name, res, violated):
    if violated is None:
        ok = res.ok and not res.violated
    else:
        ok = violated in res.violated
    print("%-70s %s" % (name, "ok" if ok else "UNEXPECTED (%s)" % (res.violated or "no violation")))
    return ok


def run(tier):
    good = True
    # RunImpl: a send to an exited compressor thread is fatal
    good &= expect("RunImpl TolerateClosed=FALSE violates NoFatal",
                   vlib.tlc("mc/MCRun", group_b.mcrun_cfg(3, 1, ["def"], ["FALSE"], False, False, tolerate=False), workers=4), "NoFatal")
    good &= expect("RunImpl TolerateClosed=TRUE passes",
                   vlib.tlc("mc/MCRun", group_b.mcrun_cfg(3, 1, ["def"], ["FALSE"], False, False), workers=4), None)
    # Changes: stale pending map
    good &= expect("Changes KeepStalePending=TRUE violates ReflagC07",
                   vlib.tlc("mc/MCChanges", group_c.mc_cfg(["af", "bf"], [], 2, 2, 0, keep_stale=True), workers=4), "ReflagC07")
    # Store: truncate + write pointer
    good &= expect("Store AtomicPointer=FALSE violates PointerNeverBroken",
                   vlib.tlc("mc/MCStore", store.mc_cfg(2, 5, atomic=False), workers=4), "PointerNeverBroken")
    good &= expect("StoreAges AtomicPointer=FALSE violates NextRunPossible (histories of every length)",
                   vlib.tlc("StoreAges", "CONSTANTS N = 3\n AtomicPointer = FALSE\nSPECIFICATION Spec\nINVARIANTS NextRunPossible\nCHECK_DEADLOCK FALSE\n", workers=2), "NextRunPossible")
    # Logs: partial buffer dropped at a tick
    good &= expect("Logs PartialSurvivesTick=FALSE violates ByteExact",
                   vlib.tlc("mc/MCLogs", logs.logs_cfg(2, 2, survives=False), workers=4), "ByteExact")
    # Tail: header and lines under separate lock holds; stream error fails the task
    good &= expect("Tail HoldMutexAcrossBlock=FALSE violates WellFormed",
                   vlib.tlc("Tail", tail.tail_cfg(3, 2, [1, 3], hold=False), workers=4), "WellFormed")
    good &= expect("Tail DetachOnError=FALSE violates NonInterference",
                   vlib.tlc("Tail", tail.tail_cfg(3, 2, [1, 3], detach=False), workers=4), "NonInterference")
    # ConfigFile: only the head buffer is hashed
    good &= expect("ConfigFile HashWholeFile=FALSE violates UsableIffUntouched",
                   vlib.tlc("mc/MCConfigFile", configfile.mc_cfg(False, 0), workers=4), "UsableIffUntouched")
    # a judge must reject a corrupted record and accept the genuine one
    genuine = {"ev": "dag", "adj": [[], [0], [0, 1]], "roots": [2], "out": {"ok": True, "err": "", "groups": [[0], [1], [2]]}}
    corrupt = json.loads(json.dumps(genuine))
    corrupt["out"]["groups"] = [[1], [0], [2]]
    fails, _, _ = vlib.judge("JudgeA", [genuine, corrupt], shards=1)
    ok = len(fails) == 1 and fails[0][0] == corrupt
    print("%-70s %s" % ("JudgeA accepts a genuine record and rejects a corrupted one", "ok" if ok else "UNEXPECTED"))
    good &= ok
    # the session replay must accept a genuine behaviour of Monorail.tla and reject the same behaviour with one logged
    # field corrupted (the binding is not vacuous)
    import session, copy
    class _C:
        seed = 4; tier = "quick"; cov = {"traces_validated_against_impl": 0}; notes = []
        def model_violation(self, *a):
            raise vlib.ToolError("MCSession violated on the model itself")
    bins = vlib.build()
    behs = session.generate(_C(), 8, 40, 4)
    genuine = next(b for b in behs if any(h["a"] == "RunEffect" and h["x"][0] == "ptrwrite" for h in b))
    corrupt = copy.deepcopy(genuine)
    i = next(k for k, h in enumerate(corrupt) if h["a"] == "RunEffect" and h["x"][0] == "ptrwrite")
    corrupt[i]["post"]["store"]["ptr"] = 2 if corrupt[i]["post"]["store"]["ptr"] == 1 else 1
    r1, r2 = session.replay_all(bins, [genuine, corrupt], workers=2)
    ok = (not r1.mismatches) and bool(r2.mismatches) and r2.mismatches[0][2] == i
    print("%-70s %s" % ("session replay accepts a genuine behaviour, rejects a corrupted pointer", "ok" if ok else "UNEXPECTED"))
    good &= ok
    # free-running trace validation: a genuine merged trace is a behaviour of Monorail.tla; the same trace with a second
    # acquisition moved inside the first holder's interval, or with a wrong slot number, is not
    import freerun, random as _random, tempfile, shutil
    tmp = tempfile.mkdtemp(prefix="selftest-fr-")
    try:
        rec = None
        for i in range(30):
            r = freerun.scenario(bins, i, _random.Random(500 + i))
            if sum(1 for e in r["events"] if e["e"] == "acquired") >= 2 and any(e["e"] == "id_chosen" for e in r["events"]):
                rec = r
                break
        if rec is None:
            raise vlib.ToolError("no suitable free-running scenario")
        ok0, _ = freerun.validate(rec, tmp)
        two = copy.deepcopy(rec); two["idx"] = 901
        ev = two["events"]
        acq = [k for k, x in enumerate(ev) if x["e"] == "acquired"]
        rel = next(k for k, x in enumerate(ev) if x["e"] == "releasing" and x["p"] == ev[acq[0]]["p"])
        ev.insert(rel, ev.pop(acq[1]))
        ok1, _ = freerun.validate(two, tmp)
        ws = copy.deepcopy(rec); ws["idx"] = 902
        e = next(x for x in ws["events"] if x["e"] == "id_chosen"); e["k"] = 3 - e["k"]
        ok2, _ = freerun.validate(ws, tmp)
        ok = ok0 and not ok1 and not ok2
        print("%-70s %s" % ("MonorailTrace accepts a genuine free-running trace, rejects two corruptions", "ok" if ok else "UNEXPECTED"))
        good &= ok
        # concurrent readers: a `result show` that answered with a slot the behaviour never offered is rejected
        rrec = None
        for i in range(60):
            r = freerun.scenario(bins, i, _random.Random(991 + i))
            if any(e["e"] == "shown" and e["ok"] for e in r["events"]):
                rrec = r
                break
        if rrec is None:
            raise vlib.ToolError("no free-running scenario with a reader that was answered")
        okr0, _ = freerun.validate(rrec, tmp)
        wr = copy.deepcopy(rrec); wr["idx"] = 903
        e = next(x for x in wr["events"] if x["e"] == "shown" and x["ok"]); e["slot"] = 3 - e["slot"]
        okr1, _ = freerun.validate(wr, tmp)
        ok = okr0 and not okr1
        print("%-70s %s" % ("MonorailTrace explains a concurrent reader's answer, rejects another slot", "ok" if ok else "UNEXPECTED"))
        good &= ok
        arec = None
        for i in range(60):
            r = freerun.scenario(bins, i, _random.Random(777 + i))
            if any(e["e"] == "answered" and e["ok"] for e in r["events"]):
                arec = r
                break
        if arec is None:
            raise vlib.ToolError("no free-running scenario with an analyze reader")
        oka0, _ = freerun.validate(arec, tmp)
        wa = copy.deepcopy(arec); wa["idx"] = 904
        e = next(x for x in wa["events"] if x["e"] == "answered" and x["ok"]); e["checkpointed"] = not e["checkpointed"]
        oka1, _ = freerun.validate(wa, tmp)
        wb = copy.deepcopy(arec); wb["idx"] = 905
        e = next(x for x in wb["events"] if x["e"] == "answered" and x["ok"]); e["targets"] = e["targets"][1:] if e["targets"] else [["a"]]
        oka2, _ = freerun.validate(wb, tmp)
        ok = oka0 and not oka1 and not oka2
        print("%-70s %s" % ("MonorailTrace explains a concurrent analyze, rejects two corruptions", "ok" if ok else "UNEXPECTED"))
        good &= ok
        crec = None
        for i in range(60):
            r = freerun.scenario(bins, i, _random.Random(31337 + i))
            if any(e["e"] == "exit" and e.get("ran") for e in r["events"]):
                crec = r
                break
        if crec is None:
            raise vlib.ToolError("no free-running scenario with a completed run")
        okc0, _ = freerun.validate(crec, tmp)
        wc = copy.deepcopy(crec); wc["idx"] = 906
        e = next(x for x in wc["events"] if x["e"] == "exit" and x.get("ran")); e["ran"] = e["ran"][1:]
        okc1, _ = freerun.validate(wc, tmp)
        ok = okc0 and not okc1
        print("%-70s %s" % ("MonorailTrace explains what a free-running run covered, rejects a dropped target", "ok" if ok else "UNEXPECTED"))
        good &= ok
        prec = None
        for i in range(80):
            r = freerun.scenario(bins, i, _random.Random(4242 + i))
            if any(e["e"] == "cp_shown" and e["ok"] for e in r["events"]):
                prec = r
                break
        if prec is None:
            raise vlib.ToolError("no free-running scenario with a checkpoint show reader that answered")
        okp0, _ = freerun.validate(prec, tmp)
        wp = copy.deepcopy(prec); wp["idx"] = 907
        e = next(x for x in wp["events"] if x["e"] == "cp_shown" and x["ok"]); e["pend"]["cf"] = -2          # a checksum no content of the scenario has
        okp1, _ = freerun.validate(wp, tmp)
        wq = copy.deepcopy(prec); wq["idx"] = 908
        e = next(x for x in wq["events"] if x["e"] == "cp_shown" and x["ok"]); e["id"] = 99       # a commit that never existed
        okp2, _ = freerun.validate(wq, tmp)
        ok = okp0 and not okp1 and not okp2
        print("%-70s %s" % ("MonorailTrace explains a concurrent checkpoint show, rejects two corruptions", "ok" if ok else "UNEXPECTED"))
        good &= ok
    finally:
        shutil.rmtree(tmp, ignore_errors=True)
    if not good:
        raise vlib.ToolError("selftest failed")
    return 0
