"""Replay of behaviours of the composed specification (Monorail.tla, via mc/MCSession.tla) on the real system.

TLC simulates behaviours of the composition (repository, out directory, checkpoint file, lock, several CLI
invocations in flight, environment edits and commits, crashes) and logs, with every step, the abstract state the
step leads to.  The driver steps REAL monorail processes through the same actions: every mutating invocation is a
real process held (MONORAIL_VERIF_DELAY=<point>:1:@<marker file>) at the hook point that bounds the specification's
action, released for exactly one action at a time; readers run to completion at their step; Crash is SIGKILL at
the hold point.  After every step the real state (run pointer, slots, checkpoint file and content) is projected
and compared with the specification's state, and every observation (lock error or not, `result show`, `analyze`,
the target set a run recorded) with the one the specification makes.

Mismatches are tagged with the property whose statement they contradict; a check reports the ones carrying its
own id and records the others as notes."""
import hashlib, json, os, re, signal, subprocess, time
from concurrent.futures import ThreadPoolExecutor
import vlib, fixture

# lock.releasing is the last hook point of every invocation that got the lock (emitted while the lock is still held, on
# success and on error paths alike): the specification's `done` state; the process exit after it is the Finish step
HOLDS = {"run": ["lock.trying", "lock.acquired", "run.id_chosen", "run.slot_removed", "run.slot_created", "run.planned",
                 "run.executed", "run.result_stored", "lock.releasing"],
         "cp_update": ["lock.trying", "lock.acquired", "cp.truncated", "lock.releasing"],
         "cp_delete": ["lock.trying", "lock.acquired", "lock.releasing"],
         "out_delete": ["lock.trying", "lock.acquired", "lock.releasing"]}
PATHS = {"af": "a/f", "bf": "b/f", "cf": "c/f"}
TARGETS = [{"path": "a"}, {"path": "b", "uses": ["a/f"]}, {"path": "c"}]
NSLOTS = 2


def session_cfg(depth, crashes=2, nprocs=2, script=0, nslots=2):
    return ('CONSTANTS Procs = {%s}\n Paths = {"af", "bf", "cf"}\n Cfg <- MCCfg\n Comp <- MCComp\n N = %d\n MaxRuns = 5\n'
            ' MaxCommits = 3\n MaxEdits = 8\n EmitDepth = %d\n MaxCrashes = %d\n ScriptId = %d\nSPECIFICATION SSpec\nINVARIANTS Emit SessionInv\n'
            'CHECK_DEADLOCK FALSE\n') % (", ".join(str(i + 1) for i in range(nprocs)), nslots, depth, crashes, script)


def content(c):
    return "content-%d\n" % c


def sha(c):
    return hashlib.sha256(content(c).encode()).hexdigest()


class Held:
    """One mutating invocation: a real process stepped from hold point to hold point."""

    def __init__(self, fx, n, api, tag):
        self.fx, self.n, self.api, self.tag = fx, n, api, tag
        self.dir = os.path.join(fx.root, "inv-%d" % n)
        os.makedirs(self.dir)
        self.trace = os.path.join(self.dir, "trace.ndjson")
        self.holds = HOLDS[api]
        delay = ",".join("%s:1:@%s" % (pt, os.path.join(self.dir, pt)) for pt in self.holds)
        args = {"run": ["run", "-c", "build", "tag%d" % tag], "cp_update": ["checkpoint", "update", "--pending"],
                "cp_delete": ["checkpoint", "delete"], "out_delete": ["out", "delete", "--all"]}[api]
        self.so = open(os.path.join(self.dir, "stdout"), "wb")
        self.se = open(os.path.join(self.dir, "stderr"), "wb")
        self.p = fx.spawn(args, env={"MONORAIL_VERIF_TRACE": self.trace, "MONORAIL_VERIF_DELAY": delay}, stdout=self.so, stderr=self.se)
        self.at = None          # index in holds of the point the process is held at
        self.rc = None

    def _points(self):
        try:
            with open(self.trace) as f:
                out = []
                for l in f:
                    try:
                        e = json.loads(l)
                    except ValueError:
                        continue
                    if isinstance(e, dict) and "point" in e:
                        out.append(e)
                return out
        except OSError:
            return []

    def wait_next(self, timeout=90):
        """Wait until the process is held at a later hold point, or has exited. Returns ("point", name, arg) or
        ("exit", rc, None)."""
        start = -1 if self.at is None else self.at
        deadline = time.time() + timeout
        while True:
            rc = self.p.poll()
            pts = self._points()
            for i in range(start + 1, len(self.holds)):
                hit = [e for e in pts if e["point"] == self.holds[i]]
                if hit:
                    self.at = i
                    return ("point", self.holds[i], hit[0].get("arg", ""))
            if rc is not None:
                # the trace file is flushed line by line before the process can exit: one more look is enough
                pts = self._points()
                for i in range(start + 1, len(self.holds)):
                    if any(e["point"] == self.holds[i] for e in pts):
                        raise vlib.ToolError("process passed hold point %s without being held" % self.holds[i])
                self.rc = rc
                self.so.close(); self.se.close()
                if rc < 0:
                    raise vlib.ToolError("monorail %s was killed by signal %d" % (self.api, -rc))
                return ("exit", rc, None)
            if time.time() > deadline:
                self.kill()
                raise vlib.ToolError("timeout waiting for %s after %s" % (self.api, self.holds[start] if start >= 0 else "spawn"))
            time.sleep(0.002)

    def release(self):
        with open(os.path.join(self.dir, self.holds[self.at]), "w"):
            pass

    def step(self):
        self.release()
        return self.wait_next()

    def kill(self):
        self.fx.kill_group(self.p)
        try:
            self.p.wait(timeout=20)
        except Exception:
            pass
        try:
            self.so.close(); self.se.close()
        except Exception:
            pass

    def err_type(self):
        try:
            for line in open(os.path.join(self.dir, "stderr"), errors="replace"):
                try:
                    e = json.loads(line)
                    if e.get("kind") == "error":
                        return e.get("type", ""), e.get("message", "")
                except ValueError:
                    pass
        except OSError:
            pass
        return "", ""

    def stdout_json(self):
        try:
            return json.loads(open(os.path.join(self.dir, "stdout"), errors="replace").read())
        except (OSError, ValueError):
            return None


def read_zst_json(path):
    if not os.path.exists(path):
        return "absent"
    data = fixture.decode_zst(path)
    if data is None:
        return "torn"
    try:
        return json.loads(data.decode("utf-8", "replace"))
    except ValueError:
        return "torn"


def tag_of(doc):
    m = re.search(r"tag(\d+)", (doc or {}).get("invocation", "") if isinstance(doc, dict) else "")
    return int(m.group(1)) if m else None


def project(fx, NSLOTS=2):
    """The real out directory in the specification's terms."""
    st = {}
    pj = fx.out_path("tracking", "run.json")
    if not os.path.exists(pj):
        st["ptr"] = 0
    else:
        try:
            st["ptr"] = int(json.load(open(pj))["id"])
        except (ValueError, KeyError, TypeError, OSError):
            st["ptr"] = -1
    slots = []
    for k in range(1, NSLOTS + 1):
        d = fx.out_path("run", str(k))
        if not os.path.isdir(d):
            slots.append({"stage": "absent", "tag": None})
            continue
        res = read_zst_json(os.path.join(d, "result.json.zst"))
        if res == "absent":
            slots.append({"stage": "open", "tag": None})       # "dir" or "logs": indistinguishable on disk
        elif res == "torn":
            slots.append({"stage": "torn-result", "tag": None})
        else:
            slots.append({"stage": "result", "tag": tag_of(res)})
    st["slots"] = slots
    extra = [n for n in (os.listdir(fx.out_path("run")) if os.path.isdir(fx.out_path("run")) else []) if n not in [str(k) for k in range(1, NSLOTS + 1)]]
    st["extra_slots"] = sorted(extra)
    cp = read_zst_json(fx.out_path("tracking", "checkpoint.json.zst"))
    st["cp"] = cp
    return st


class Replay:
    def __init__(self, bins, hist, idx, nslots=2):
        self.bins, self.hist, self.idx, self.nslots = bins, hist, idx, nslots
        self.mismatches = []     # (tag, why, step index)
        self.procs = {}          # model process -> Held | ("reader", api)
        self.rmap = {}           # model run number -> spawn tag
        self.run_targets = {}    # model process -> target set the specification recorded at RunReadRepo
        self.commits = []
        self.ntag = 0
        self.run_crashed = False
        self.steps_done = 0
        self.expect_ok = {}      # model process -> True (exit 0) | False (failure) | None (unspecified) at its Finish step

    def mm(self, tag, why, i):
        self.mismatches.append((tag, why, i))

    def store_tag(self):
        return "C13" if self.run_crashed else "C12"

    def compare_state(self, fx, h, i, after_loser=False, after_run_crash=False):
        real = project(fx, self.nslots)
        post = h["post"]
        st = post["store"]
        tag = "C14" if after_loser else ("C13" if after_run_crash else self.store_tag())
        if real["ptr"] != st["ptr"]:
            self.mm(tag, "run pointer is %s, the specification has %s after %s" % (real["ptr"], st["ptr"], h["a"]), i)
        for k, (rs, ms) in enumerate(zip(real["slots"], st["slot"])):
            want = {"absent": "absent", "dir": "open", "logs": "open", "result": "result"}[ms["stage"]]
            if rs["stage"] != want:
                self.mm(tag, "slot %d is %s, the specification has %s after %s" % (k + 1, rs["stage"], ms["stage"], h["a"]), i)
            elif want == "result" and rs["tag"] != self.rmap.get(ms["run"]):
                self.mm(tag, "slot %d holds the result of another run than the specification's run %d" % (k + 1, ms["run"]), i)
        if real["extra_slots"]:
            self.mm(tag, "run directories outside 1..max_retained_runs exist: %s" % real["extra_slots"], i)
        # checkpoint file
        cptag = "C14" if after_loser else ("C13" if after_run_crash else "C19")
        cp, mcp = real["cp"], post["cp"]
        if post["cpfile"] == "torn":
            if cp != "torn":
                self.mm(cptag, "checkpoint file is not in its truncated state after %s" % h["a"], i)
        elif not mcp["set"]:
            if cp != "absent":
                self.mm(cptag, "a checkpoint file exists where the specification has none after %s" % h["a"], i)
        else:
            if not isinstance(cp, dict):
                self.mm(cptag, "checkpoint file is %s where the specification has a checkpoint after %s" % (cp, h["a"]), i)
            else:
                want_id = self.commits[mcp["id"] - 1]
                if cp.get("id") != want_id:
                    self.mm(cptag, "checkpoint id is not the commit the specification recorded (after %s)" % h["a"], i)
                want_p = {PATHS[p]: ("" if c == 0 else sha(c)) for p, c in mcp["pend"].items() if c != -1}
                got_p = cp.get("pending") or {}
                if got_p != want_p:
                    self.mm(cptag, "checkpoint pending map differs from the specification's (after %s): %s vs %s" % (
                        h["a"], sorted(got_p), sorted(want_p)), i)

    def run(self):
        # every other behaviour names the lock host instead of giving its address (a name has to be resolved first)
        fx = fixture.Fixture(self.bins, [dict(t) for t in TARGETS], max_retained_runs=self.nslots,
                             lock_host="localhost" if self.idx % 2 else None)
        try:
            for t in "abc":
                with open(os.path.join(fx.repo, t, "f"), "w") as f:
                    f.write(content(1))
                fx.add_cmd(t, "build", [{"op": "out", "text": "built %s\n" % t}, {"op": "exit", "code": 0}], ext=".sh")
            fx.git_init()
            self.commits = [fx.head()]
            for i, h in enumerate(self.hist):
                self.step(fx, h, i)
                self.steps_done = i + 1
                if any(True for m in self.mismatches):
                    break      # the real system has left the specification's behaviour: later steps would only echo it
            return self
        finally:
            for pr in self.procs.values():
                if isinstance(pr, Held) and pr.p.poll() is None:
                    pr.kill()
            fx.cleanup()

    def expect_point(self, got, name, tag, what, i):
        if got[0] != "point" or got[1] != name:
            self.mm(tag, "%s: the invocation %s where the specification continues" % (
                what, "exited with status %s" % got[1] if got[0] == "exit" else "stopped at " + str(got[1])), i)
            return False
        return True

    def expect_exit(self, got, ok, tag, what, i):
        if got[0] != "exit":
            self.mm(tag, "%s: the invocation is still running (at %s) where the specification has it exit" % (what, got[1]), i)
            return False
        if ok is None:
            return True
        if ok and got[1] != 0:
            self.mm(tag, "%s: exit status %s where the specification has success" % (what, got[1]), i)
            return False
        if not ok and got[1] == 0:
            self.mm(tag, "%s: exit status 0 where the specification has a failure" % what, i)
            return False
        return True

    def step(self, fx, h, i):
        a, p, x, pre, post = h["a"], h["p"], h["x"], h["pre"], h["post"]
        after_loser = after_run_crash = False
        if a == "EnvEdit":
            with open(os.path.join(fx.repo, PATHS[x[0]]), "w") as f:
                f.write(content(x[1]))
        elif a == "EnvCommitAll":
            fx.git("add", "-A")
            fx.git("commit", "-q", "-m", "c%d" % len(self.commits))
            self.commits.append(fx.head())
        elif a == "Start":
            api = x[0]
            if api in HOLDS:
                self.ntag += 1
                pr = Held(fx, i, api, self.ntag)
                self.procs[p] = pr
                got = pr.wait_next()
                self.expect_point(got, "lock.trying", "C14", "start of " + api, i)
            else:
                self.procs[p] = ("reader", api)
        elif a == "TryLock":
            pr = self.procs[p]
            got = pr.step()
            if pre["holder"] == 0:
                self.expect_point(got, "lock.acquired", "C14", "lock acquisition with the lock free", i)
            else:
                after_loser = True
                if self.expect_exit(got, False, "C14", "lock acquisition while another invocation holds the lock", i):
                    et, em = pr.err_type()
                    if "lock" not in (et + " " + em).lower():
                        self.mm("C14", "the losing invocation failed with %r, not with a lock error" % et, i)
        elif a == "RunChoose":
            pr = self.procs[p]
            got = pr.step()
            if pre["canstart"]:
                self.expect_point(got, "run.id_chosen", self.store_tag(), "run start", i)
            else:
                self.expect_point(got, "lock.releasing", self.store_tag(), "run start with an unparsable pointer", i)
                self.expect_ok[p] = False
        elif a == "RunEffect":
            pr = self.procs[p]
            eff, r, k = x
            self.rmap.setdefault(r, pr.tag)
            got = pr.step()
            nxt = {"wipe": "run.slot_removed", "mkdir": "run.slot_created", "logs": "run.executed", "result": "run.result_stored"}
            if eff == "wipe":
                chosen = [e for e in pr._points() if e["point"] == "run.id_chosen"]
                if chosen and str(chosen[0].get("arg")) != str(k):
                    self.mm(self.store_tag(), "the run uses slot %s where the specification's next slot is %s" % (chosen[0].get("arg"), k), i)
            if eff in nxt:
                self.expect_point(got, nxt[eff], self.store_tag(), "run effect " + eff, i)
            else:
                self.expect_point(got, "lock.releasing", self.store_tag(), "run effect ptrwrite", i)
                self.expect_ok[p] = True
        elif a == "RunReadRepo":
            pr = self.procs[p]
            self.rmap.setdefault(x[0], pr.tag)
            got = pr.step()
            if pre["cpfile"] == "ok":
                self.expect_point(got, "run.planned", self.store_tag(), "run planning", i)
                self.run_targets[p] = post["obs"]["targets"]
            else:
                self.expect_point(got, "lock.releasing", "C19", "run with a truncated checkpoint file", i)
                self.expect_ok[p] = False
        elif a == "CpReadTruncate":
            pr = self.procs[p]
            got = pr.step()
            if pre["cpfile"] == "ok":
                self.expect_point(got, "cp.truncated", "C19", "checkpoint update", i)
            else:
                self.expect_point(got, "lock.releasing", "C19", "checkpoint update with a truncated checkpoint file", i)
                self.expect_ok[p] = False
        elif a in ("CpWrite", "CpDelete", "OutDelete"):
            pr = self.procs[p]
            got = pr.step()
            self.expect_point(got, "lock.releasing", "C19", a, i)
            # `checkpoint delete` without a checkpoint and `out delete --all` without an out directory report an error:
            # their exit status is not part of the specification's state
            self.expect_ok[p] = True if a == "CpWrite" else None
        elif a == "Finish":
            pr = self.procs[p]
            got = pr.step()
            want_ok = self.expect_ok.get(p)
            if self.expect_exit(got, want_ok, "C14" if want_ok is None else self.store_tag(), "exit of " + pr.api, i) and pr.api == "run" and want_ok:
                doc = pr.stdout_json()
                want = sorted("/".join(t) for t in self.run_targets.get(p, []))
                got_t = sorted(((doc or {}).get("out", {}).get("run", {}).get("targets") or {}).keys())
                if got_t != want:
                    self.mm("C05", "the run covered %s where the change set at its read instant affects %s" % (got_t, want), i)
        elif a == "Crash":
            pr = self.procs[p]
            pr.kill()
            if x[0] == "run":
                self.run_crashed = True
                after_run_crash = True
        elif a == "Analyze":
            res = fx.monorail(["analyze"])
            obs = post["obs"]
            if obs["k"] == "analyze_error":
                if res["rc"] == 0:
                    self.mm("C19", "analyze succeeded while the checkpoint file is truncated", i)
            elif res["rc"] != 0 or not isinstance(res["out"], dict):
                self.mm("C07", "analyze failed where the specification has it answer", i)
            else:
                if bool(res["out"].get("checkpointed")) != bool(obs["cp"]["set"]):
                    self.mm("C19", "analyze reports checkpointed=%s where the specification has %s" % (res["out"].get("checkpointed"), obs["cp"]["set"]), i)
                want = sorted("/".join(t) for t in obs["targets"])
                got_t = sorted(res["out"].get("targets") or [])
                if got_t != want:
                    self.mm("C07", "analyze reports %s where the specification's change set affects %s" % (got_t, want), i)
        elif a == "CpShow":
            res = fx.monorail(["checkpoint", "show"])
            obs = post["obs"]
            if obs["k"] == "cp_show_error":
                if res["rc"] == 0:
                    self.mm("C19", "checkpoint show answered where the specification has %s" % (
                        "a truncated checkpoint file" if post["cpfile"] == "torn" else "no checkpoint"), i)
            elif res["rc"] != 0 or not isinstance(res["out"], dict) or not isinstance(res["out"].get("checkpoint"), dict):
                self.mm("C19", "checkpoint show failed where the specification has a checkpoint to show", i)
            else:
                got = res["out"]["checkpoint"]
                mcp = obs["cp"]
                if got.get("id") != self.commits[mcp["id"] - 1]:
                    self.mm("C19", "checkpoint show names another commit than the last update recorded", i)
                want_p = {PATHS[q]: ("" if c == 0 else sha(c)) for q, c in mcp["pend"].items() if c != -1}
                if (got.get("pending") or {}) != want_p:
                    self.mm("C19", "checkpoint show lists other pending paths/checksums than the last update recorded: %s vs %s" % (
                        sorted(got.get("pending") or {}), sorted(want_p)), i)
        elif a == "ResultShow":
            res = fx.monorail(["result", "show"])
            want_r = post["obs"]["run"]
            if want_r == 0:
                if res["rc"] == 0:
                    self.mm(self.store_tag(), "result show answered where the specification has no completed run to show", i)
            elif res["rc"] != 0:
                self.mm(self.store_tag(), "result show failed where the specification shows run %d" % want_r, i)
            elif tag_of(res["out"]) != self.rmap.get(want_r):
                self.mm(self.store_tag(), "result show returned another run than the last completed one", i)
        else:
            raise vlib.ToolError("unknown action %s" % a)
        self.compare_state(fx, h, i, after_loser, after_run_crash)


NSCRIPTS = 5


def generate(chk, n, depth, seed, crashes=2, nprocs=2, nslots=2):
    """n behaviours: a share of them begins with each directed prefix (mc/MCSession.tla, Script), the rest is free."""
    per_script = max(1, n // 8)
    plan = [(k, per_script) for k in range(1, NSCRIPTS + 1)] + [(0, max(1, n - NSCRIPTS * per_script))]
    jobs = [dict(module="mc/MCSession", cfg_text=session_cfg(depth, crashes, nprocs, k, nslots), workers=1, timeout=900,
                 simulate="num=%d" % m, extra=["-depth", str(depth + 1), "-seed", str(seed + 17 * k)]) for k, m in plan]
    behs, seen = [], set()
    for (k, m), r in zip(plan, vlib.tlc_parallel(jobs)):
        if r.violated:
            chk.model_violation("MCSession", r)
        got = []
        for b in r.printed("BEH"):
            key = json.dumps(b["hist"], sort_keys=True)
            if key not in seen:
                seen.add(key)
                got.append(b["hist"])
        if len(got) < max(1, m // 2):
            raise vlib.ToolError("too few simulated session behaviours (script %d): %d" % (k, len(got)))
        behs += got[:m]
    return behs


def replay_all(bins, behs, workers=8, nslots=2):
    with ThreadPoolExecutor(max_workers=workers) as ex:
        return list(ex.map(lambda ib: Replay(bins, ib[1], ib[0], nslots).run(), enumerate(behs)))


def stage(chk, bins, pid, n, depth, crashes=2, nprocs=2):
    """Run the session replay inside a property check: violations tagged with pid are reported, the others noted."""
    behs = generate(chk, n, depth, chk.seed, crashes, nprocs)
    reps = replay_all(bins, behs)
    if chk.tier == "thorough":
        # three invocations in flight, three slots, more crashes
        behs3 = generate(chk, max(8, n // 2), depth + 20, chk.seed + 1, 3, 3, 3)
        reps += replay_all(bins, behs3, nslots=3)
    steps = sum(r.steps_done for r in reps)
    acts = {}
    for r in reps:
        for h in r.hist[:r.steps_done]:
            acts[h["a"]] = acts.get(h["a"], 0) + 1
    chk.cov["session_behaviours_replayed"] = len(reps)
    chk.cov["session_steps_compared"] = steps
    chk.cov["session_actions"] = acts
    chk.cov["traces_validated_against_impl"] += len(reps)
    others = {}
    for r in reps:
        for tag, why, i in r.mismatches:
            if tag == pid:
                chk.violation("session:" + re.sub(r"\d+", "N", why)[:80], "%s: %s (behaviour %d, step %d %s)" % (tag, why, r.idx, i, r.hist[i]["a"]),
                              {"ev": "session", "hist": r.hist[:i + 1], "tag": tag, "why": why})
            else:
                others.setdefault(tag, []).append(why)
    for tag, whys in others.items():
        chk.notes.append({"other-property": tag, "count": len(whys), "first": whys[0]})
        print("NOTE: session replay: %d mismatches tagged %s (reported by that property's check): %s" % (len(whys), tag, whys[0]))
    return reps


def replay_one(pid, obj):
    bins = vlib.build()
    r = Replay(bins, obj["hist"], 0, len(obj["hist"][0]["post"]["store"]["slot"])).run()
    mine = [m for m in r.mismatches if m[0] == pid]
    for tag, why, i in r.mismatches:
        print("REPLAY: %s: %s (step %d)" % (tag, why, i))
    return 1 if mine else 0
