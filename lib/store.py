"""C12, C13: the run store. Store.tla is model-checked (MCStore: all histories of completing / aborting /
crashing invocations); TLC-enumerated histories plus random long histories are replayed on the real binary
(guarded crash points, SIGKILL while children run); StoreJudge.tla (TLC) validates every observation."""
import json, os, random, re, signal, subprocess, time
from concurrent.futures import ThreadPoolExecutor
import vlib, fixture, runlib

TAGS = {"C12": "C12:", "C13": "C13:"}
# guarded points by number of (atomic-pointer design) effects performed before the crash
POINTS = {0: ["run.id_chosen"], 1: ["run.slot_removed"], 2: ["run.slot_created", "run.planned", "run.group_begin"],
          3: ["run.executed", "run.result_opened", "sigkill"], 4: ["run.result_stored", "ptr.truncated", "ptr.written"],
          5: ["ptr.renamed", "run.pointer_saved"]}
TARGETS = ["t1", "t2", "t3"]


def mc_cfg(n, maxruns, atomic=True, emit=False, view=True):
    # with a single slot an aborted or crashed invocation necessarily destroys the only retained run
    # (C13 is stated for max_retained_runs >= 2); N = 1 is therefore checked for fault-free histories
    return ("CONSTANTS N = %d\n MaxRuns = %d\n AtomicPointer = %s\n EmitBehaviours = %s\n Faults = " + ("FALSE" if n == 1 else "TRUE") + "\nSPECIFICATION Spec\n%s"
            "INVARIANTS PointerNamesLatest CrashPreservesLast PointerNeverBroken NextRunPossible Retained NoLeftovers "
            "LastNRetrievable Emit\nCHECK_DEADLOCK FALSE\n") % (n, maxruns, "TRUE" if atomic else "FALSE",
                                                                 "TRUE" if emit else "FALSE", "VIEW View\n" if view else "")


def strip_doc(d):
    if not isinstance(d, dict):
        return d
    d = json.loads(json.dumps(d))
    d.pop("timestamp", None)
    for cr in d.get("results", []):
        for g in cr.get("target_groups", []):
            for t, v in g.items():
                if "runtime_secs" in v and v["runtime_secs"] is not None:
                    v["runtime_secs"] = round(float(v["runtime_secs"]), 4)
    return d


def play_history(bins, beh, n, hist, rng):
    """hist: list of {"kind": complete|abort|crash, "n": effects performed, optional "fail": bool}"""
    targets = [{"path": "t1"}, {"path": "t2", "uses": ["t1"]}, {"path": "t3"}]
    # every second history runs in a repository on a memory file system (where there is one)
    fx = fixture.Fixture(bins, targets, max_retained_runs=n, root_dir="/dev/shm" if (isinstance(beh, int) and beh % 2 == 1) else None)
    ev = [{"ev": "reset", "beh": beh, "n": n}]
    printed = {}
    try:
        fx.git_init()
        r0 = fx.monorail(["checkpoint", "update"])
        cpref = [json.dumps((r0["out"] or {}).get("checkpoint"), sort_keys=True)]
        expected = {}     # run -> set of (target, stream) lines expected in its logs

        def observe():
            # the run pointer as every earlier monorail wrote it: `{"id":N}` and nothing else.  A pointer that parses and
            # carries more is reduced to that (for the pinned tree this rewrites the very same bytes): state left by an
            # earlier invocation must be enough for the next one
            ptr = fx.out_path("tracking", "run.json")
            try:
                d = json.load(open(ptr))
                if isinstance(d, dict) and isinstance(d.get("id"), int):
                    canon = ('{"id":%d}' % d["id"]).encode()
                    if open(ptr, "rb").read() != canon:
                        with open(ptr, "wb") as f:
                            f.write(canon)
            except (OSError, ValueError):
                pass
            r = fx.monorail(["result", "show"])
            run_no, same = -1, False
            if r["rc"] == 0 and r["out"]:
                cmdsn = [cr.get("command", "") for cr in r["out"].get("results", [])]
                m = re.match(r"cmd(\d+)$", cmdsn[0]) if cmdsn else None
                run_no = int(m.group(1)) if m else -1
                same = run_no in printed and strip_doc(r["out"]) == strip_doc(printed[run_no])
                if run_no not in printed:
                    same = True      # the run completed but died before printing: nothing to compare with
            ev.append({"ev": "result_show", "rc": r["rc"], "run": run_no, "same_doc": same})
            for k in [0] + list(range(1, n + 1)):
                args = ["log", "show", "--stdout", "--stderr"] + (["--id", str(k)] if k else [])
                r = fx.monorail(args)
                text = r["stdout"].decode("utf-8", "replace")
                seen = {}
                for m in re.finditer(r"^NONCE run=(\d+) target=(\S+) stream=(\w+)$", text, re.M):
                    seen.setdefault(int(m.group(1)), []).append((m.group(2), m.group(3)))
                runs = sorted(seen)
                complete = len(runs) == 1 and sorted(seen[runs[0]]) == sorted(expected.get(runs[0], [("?", "?")]))
                ev.append({"ev": "log_show", "id": k, "rc": r["rc"], "runs": runs, "complete": complete})
            rd = fx.out_path("run")
            dirs = sorted(int(d) for d in os.listdir(rd) if d.isdigit()) if os.path.isdir(rd) else []
            ev.append({"ev": "ls_runs", "dirs": dirs})
            r = fx.monorail(["checkpoint", "show"])
            ev.append({"ev": "cp_same", "same": json.dumps((r["out"] or {}).get("checkpoint"), sort_keys=True) == cpref[0]})

        observe()
        for i, h in enumerate(hist):
            rno = i + 1
            cmd = "cmd%d" % rno
            tsel = rng.sample(TARGETS, rng.randint(1, 3))
            fail = h.get("fail", False)
            point = None
            if h["kind"] == "crash":
                point = h.get("point") or rng.choice(POINTS[h["n"]])
            exp = []
            for t in TARGETS:
                code = 3 if (fail and t == tsel[-1]) else 0
                steps = [{"op": "out", "text": "NONCE run=%d target=%s stream=out\n" % (rno, t)},
                         {"op": "out", "stream": "stderr", "text": "NONCE run=%d target=%s stream=err\n" % (rno, t)}]
                if point == "sigkill":
                    steps.append({"op": "touch", "path": "ready-%d-%s" % (rno, t)})
                    steps.append({"op": "sleep", "ms": 30000})
                if h.get("observe"):
                    steps.append({"op": "touch", "path": "ready-%d-%s" % (rno, t)})
                    steps.append({"op": "wait", "paths": ["go-%d" % rno], "timeout_ms": 30000})
                steps.append({"op": "exit", "code": code})
                fx.add_cmd(t, cmd, steps, ext=".sh")
            args = ["run", "-c", cmd, "-t"] + tsel
            if rno % 3 == 0:
                # every third run has a second (silent) command: when the first one fails it is skipped and leaves its log
                # directories empty; when the slot is reused its files must not survive either
                post = "post%d" % (rno % 2)
                for t in TARGETS:
                    fx.add_cmd(t, post, [{"op": "exit", "code": 0}], ext=".sh")
                args = ["run", "-c", cmd, post, "-t"] + tsel
            # which targets actually run: serial over tsel, stopping after the failing one
            for t in tsel:
                exp += [(t, "out"), (t, "err")]
            fx.reset_helper()
            if h["kind"] == "complete":
                if h.get("observe"):
                    # a reader in another terminal while the run is executing (no fault involved): it must still be served
                    # the most recent COMPLETED run
                    pr = fx.spawn(args)
                    deadline = time.time() + 20
                    while (not any(os.path.exists(fx.marker("ready-%d-%s" % (rno, t))) for t in tsel)
                           and time.time() < deadline and pr.poll() is None):
                        time.sleep(0.005)
                    rr = fx.monorail(["result", "show"])
                    rn = -1
                    if rr["rc"] == 0 and rr["out"]:
                        m = re.match(r"cmd(\d+)$", (rr["out"].get("results") or [{}])[0].get("command", ""))
                        rn = int(m.group(1)) if m else -1
                    ev.append({"ev": "inflight_result_show", "rc": rr["rc"] if rr["rc"] is not None else -9, "run": rn, "fault": False})
                    with open(fx.marker("go-%d" % rno), "w") as gf:
                        gf.write("go")
                    so, se = pr.communicate(timeout=120)
                    res = fx._result(pr.returncode, so, se)
                else:
                    hook_file = os.path.join(fx.root, "hooks-%d.ndjson" % rno)
                    res = fx.monorail(args, env={"MONORAIL_VERIF_TRACE": hook_file} if rno <= 2 else None)
                    if rno <= 2 and os.path.exists(hook_file):
                        with open(hook_file) as hf:
                            hooks = sorted((json.loads(l) for l in hf if l.strip()), key=lambda e: e["seq"])
                        ev.append({"ev": "_hooks", "run": rno, "points": [{"point": x["point"]} for x in hooks]})
                ok = res["rc"] in (0, 1) and isinstance(res["out"], dict) and "results" in res["out"]
                slot = -1
                if ok:
                    printed[rno] = res["out"]
                    slot = int(os.path.basename(res["out"]["out"]["run"]["path"]))
                    # explicit targets are iterated in hash order: which of them ran is read from the document
                    ran = [t for cr in res["out"]["results"][:1] for g in cr["target_groups"] for t, v in g.items()
                           if v.get("status") in ("success", "error")]
                    expected[rno] = [(t, s) for t in ran for s in ("out", "err")]
                ev.append({"ev": "run", "r": rno, "kind": "complete", "n_effects": 5, "ok": ok, "slot": slot, "rc": res["rc"] if res["rc"] is not None else -9,
                           "stderr": res["stderr"].decode("utf-8", "replace")[-200:]})
            elif h["kind"] == "out_delete":
                res = fx.monorail(["out", "delete", "--all"])
                ev.append({"ev": "out_delete_all", "rc": res["rc"] if res["rc"] is not None else -9})
                cpref[0] = json.dumps(None, sort_keys=True)       # the checkpoint is gone with tracking/
                printed.clear()
                observe()
                continue
            elif h["kind"] == "abort":
                res = fx.monorail(["run", "-s", "no-such-sequence", "-c", cmd, "-t"] + tsel)
                ev.append({"ev": "run", "r": rno, "kind": "abort", "n_effects": 2, "ok": False, "slot": -1, "rc": res["rc"] if res["rc"] is not None else -9})
            else:
                expected[rno] = exp
                if point == "sigkill":
                    p = fx.spawn(args)
                    deadline = time.time() + 20
                    first = fx.marker("ready-%d-%s" % (rno, tsel[0]))
                    while not os.path.exists(first) and time.time() < deadline and p.poll() is None:
                        time.sleep(0.005)
                    time.sleep(rng.random() * 0.05)
                    # a reader while the run is in flight (its children are parked)
                    rr = fx.monorail(["result", "show"])
                    rn = -1
                    if rr["rc"] == 0 and rr["out"]:
                        m = re.match(r"cmd(\d+)$", (rr["out"].get("results") or [{}])[0].get("command", ""))
                        rn = int(m.group(1)) if m else -1
                    ev.append({"ev": "inflight_result_show", "rc": rr["rc"] if rr["rc"] is not None else -9, "run": rn, "fault": True})
                    # the fault: SIGKILL to the whole group, or one of the catchable termination signals to monorail alone
                    # (terminal closed, ^C, `kill`); the default disposition of each of them ends the process on the spot
                    sig = rng.choice([signal.SIGKILL, signal.SIGTERM, signal.SIGINT, signal.SIGHUP])
                    if sig != signal.SIGKILL:
                        try:
                            os.kill(p.pid, sig)
                            p.wait(timeout=5)
                        except (OSError, subprocess.TimeoutExpired):
                            pass
                    fx.kill_group(p)
                    p.wait()
                    rc = p.returncode
                else:
                    # (a point inside the pointer save may be passed more than once by an implementation that retries
                    # or falls back: the crash sometimes waits for the second passage; where there is none the run completes)
                    hit = 2 if point.startswith("ptr.") and rng.random() < 0.34 else 1
                    res = fx.monorail(args, env={"MONORAIL_VERIF_CRASH": "%s:%d" % (point, hit)})
                    rc = res["rc"]
                    if rc != 137:
                        # the crash point was not reached: the invocation ran to the end (hook drift) - record it as completed
                        ok = rc in (0, 1) and isinstance(res["out"], dict)
                        if ok:
                            printed[rno] = res["out"]
                        ev.append({"ev": "run", "r": rno, "kind": "complete", "n_effects": 5, "ok": ok,
                                   "slot": int(os.path.basename(res["out"]["out"]["run"]["path"])) if ok else -1, "rc": rc if rc is not None else -9,
                                   "note": "crash point %s not reached" % point})
                        observe()
                        continue
                fx.kill_group(fx.procs[-1])
                ev.append({"ev": "run", "r": rno, "kind": "crash", "n_effects": h["n"], "ok": False, "slot": -1, "rc": rc if rc is not None else -9,
                           "point": point})
            observe()
        return ev
    finally:
        fx.cleanup()


def planted_checkpoint_history(bins, beh):
    """C13, state left by an earlier invocation in an equivalent form: the stored checkpoint carries `"pending": {}` (an
    empty map, the same checkpoint as `null`).  Runs that read it (no -t) are killed at every guarded point of a
    checkpoint rewrite and at some of their own: afterwards `checkpoint show` still answers, with the same checkpoint."""
    targets = [{"path": "t1"}, {"path": "t2", "uses": ["t1"]}, {"path": "t3"}]
    fx = fixture.Fixture(bins, targets, max_retained_runs=2)
    ev = [{"ev": "reset", "beh": beh, "n": 2}]
    try:
        for t in TARGETS:
            fx.add_cmd(t, "build", [{"op": "exit", "code": 0}], ext=".sh")
        fx.git_init()
        if fx.monorail(["checkpoint", "update"])["rc"] != 0:
            raise vlib.ToolError("checkpoint update failed")
        cpp = fx.out_path("tracking", "checkpoint.json.zst")
        raw = fixture.decode_zst(cpp)
        try:
            doc = json.loads(raw)
        except (TypeError, ValueError):
            return ev
        if not isinstance(doc, dict) or doc.get("pending") not in (None, {}):
            return ev
        doc["pending"] = {}
        z = subprocess.run(["zstd", "-q", "-c"], input=json.dumps(doc, separators=(",", ":")).encode(), stdout=subprocess.PIPE, stderr=subprocess.PIPE)
        if z.returncode != 0:
            return ev
        def norm(r):
            cp = (r["out"] or {}).get("checkpoint") if isinstance(r["out"], dict) else None
            return None if (r["rc"] != 0 or not isinstance(cp, dict)) else (cp.get("id"), json.dumps(cp.get("pending") or {}, sort_keys=True))
        for point in ("cp.truncated", "cp.written", "run.id_chosen", "run.planned", "lock.releasing"):
            with open(cpp, "wb") as f:
                f.write(z.stdout)
            ref = norm(fx.monorail(["checkpoint", "show"]))
            with open(cpp, "wb") as f:
                f.write(z.stdout)
            with open(os.path.join(fx.repo, "t1", "src.txt"), "a") as f:
                f.write("edit %s\n" % point)
            fx.monorail(["run", "-c", "build"], env={"MONORAIL_VERIF_CRASH": point + ":1"})
            fx.kill_group(fx.procs[-1])
            now = norm(fx.monorail(["checkpoint", "show"]))
            ev.append({"ev": "cp_same", "same": ref is not None and now == ref, "point": point})
        return ev
    finally:
        fx.cleanup()


def histories(chk, tier, rng, pid):
    hs = []
    # ---- from the specification: every history of 3 invocations (N = 2), sampled in the quick tier
    r = vlib.tlc("mc/MCStore", mc_cfg(2, 3, emit=True, view=False), workers=4, timeout=900)
    if r.violated:
        chk.model_violation("MCStore", r)
    vlib.require_ok(r, "MCStore emit")
    behs = [b["hist"] for b in r.printed("BEH")]
    seen, uniq = set(), []
    for b in behs:
        b = [x for x in b if x["kind"] != "refused"]
        k = json.dumps(b)
        if k not in seen and b:
            seen.add(k); uniq.append(b)
    rng.shuffle(uniq)
    want = 14 if tier == "quick" else len(uniq)
    if pid == "C12":
        # C12 speaks about sequences of runs; histories with crashes belong to C13
        uniq = [b for b in uniq if all(x["kind"] != "crash" for x in b)]
    for b in uniq[:want]:
        # wrap the 3 model invocations into a longer history: completed runs before and after
        n = rng.choice([2, 3])
        pre = [{"kind": "complete", "n": 5, "fail": rng.random() < 0.3} for _ in range(rng.randint(1, n + 1))]
        post = [{"kind": "complete", "n": 5} for _ in range(rng.randint(1, 2))]
        hs.append((n, pre + b + post))
    # ---- every crash point once after a completed run (C13 fault enumeration), N = 2 and 3
    if pid == "C13":
        for n in (2, 3):
            for cnt, pts in POINTS.items():
                for p in pts:
                    hs.append((n, [{"kind": "complete", "n": 5}, {"kind": "crash", "n": cnt, "point": p}, {"kind": "complete", "n": 5},
                                   {"kind": "crash", "n": cnt, "point": p}, {"kind": "complete", "n": 5, "fail": True}]))
    # ---- independent driver: long random histories (> 4N invocations)
    nlong = (6 if tier == "quick" else 60)
    for i in range(nlong):
        n = rng.choice([1, 2, 3, 4]) if pid == "C12" else rng.choice([2, 3, 4])
        length = 4 * n + rng.randint(1, 4)
        h = []
        for _ in range(length):
            x = rng.random()
            if pid == "C12" or x < 0.55:
                if rng.random() < 0.06:
                    h.append({"kind": "out_delete", "n": 0})
                if rng.random() < 0.2:
                    h.append({"kind": "complete", "n": 5, "observe": True})
                    continue
                h.append({"kind": "complete", "n": 5, "fail": rng.random() < 0.3} if (rng.random() < 0.9 or n == 1) else {"kind": "abort", "n": 2})
            else:
                cnt = rng.randint(0, 5)
                h.append({"kind": "crash", "n": cnt})
        hs.append((n, h))
    return hs


def run(pid, tier):
    chk = vlib.Check(pid, tier, "model_checking")
    bins = vlib.build()
    rng = random.Random(chk.seed)
    for n, mr in ((1, 5), (2, 7), (3, 8)) if tier == "quick" else ((1, 6), (2, 9), (3, 10), (4, 10)):
        r = vlib.tlc("mc/MCStore", mc_cfg(n, mr), workers=4, timeout=1800)
        if r.violated:
            chk.model_violation("MCStore N=%d" % n, r)
        vlib.require_ok(r, "MCStore")
        chk.add_model("MCStore/Store", r, "N=%d MaxRuns=%d atomic pointer" % (n, mr))
    # relative ages: finite state space, histories of every length
    for n in (2, 3, 4) if tier == "quick" else (2, 3, 4, 5, 6):
        cfg = ("CONSTANTS N = %d\n AtomicPointer = TRUE\nSPECIFICATION Spec\nINVARIANTS PointerNamesLatestCompleted CrashPreserves "
               "NextRunPossible DistinctAges\nCHECK_DEADLOCK FALSE\n") % n
        r = vlib.tlc("StoreAges", cfg, workers=2, timeout=900)
        if r.violated:
            chk.model_violation("StoreAges N=%d" % n, r)
        vlib.require_ok(r, "StoreAges")
        chk.add_model("StoreAges", r, "N=%d, relative ages: run histories of every length" % n)
    if tier == "thorough":
        # unbounded histories, N in 2..5: an inductive invariant discharged by Apalache (Init => IndInv,
        # IndInv /\ Next => IndInv', IndInv => PointerNamesLatestCompleted)
        import tempfile, shutil, subprocess
        out = tempfile.mkdtemp(prefix="apalache-")
        obligations = [("--init=Init", "--inv=IndInv", "--length=0"), ("--init=IndInit", "--inv=IndInv", "--length=1"),
                       ("--init=IndInit", "--inv=PointerNamesLatestCompleted", "--length=0")]
        done = 0
        for o in obligations:
            pr = subprocess.run(["timeout", "900", "apalache-mc", "check", "--cinit=ConstInit", "--out-dir=" + out] + list(o) +
                                [os.path.join(vlib.SPEC, "apalache", "StoreInd.tla")], stdout=subprocess.PIPE, stderr=subprocess.STDOUT, text=True)
            if "EXITCODE: OK" in pr.stdout:
                done += 1
            elif "violat" in pr.stdout:
                shutil.rmtree(out, ignore_errors=True)
                raise vlib.ToolError("Apalache: inductive invariant obligation %s failed on the model" % (o,))
            else:
                chk.notes.append({"apalache": "obligation %s could not be run: %s" % (o, pr.stdout[-200:])})
        shutil.rmtree(out, ignore_errors=True)
        chk.cov["apalache_inductive_obligations"] = len(obligations)
        chk.cov["apalache_inductive_discharged"] = done
    hs = histories(chk, tier, rng, pid)
    def one(ih):
        i, (n, h) = ih
        return play_history(bins, i, n, h, random.Random(chk.seed * 31 + i))
    with ThreadPoolExecutor(max_workers=12) as ex:
        traces = list(ex.map(one, enumerate(hs)))
    traces.append(planted_checkpoint_history(bins, len(hs)))
    # ---- internal effect order of completed runs against Store's effect sequence (MODEL-DRIFT only)
    hook_traces = [e["points"] for t in traces for e in t if e["ev"] == "_hooks" and e["points"]]
    if hook_traces:
        import tempfile, shutil
        tmp = tempfile.mkdtemp(prefix="storetrace-")
        jobs = []
        for i, pts in enumerate(hook_traces[:24]):
            pth = os.path.join(tmp, "t%d.ndjson" % i)
            with open(pth, "w") as f:
                for e in pts:
                    f.write(json.dumps(e) + "\n")
            jobs.append(dict(module="trace/StoreImplTrace", cfg_text="SPECIFICATION Spec\nINVARIANT NotAccepted\nCHECK_DEADLOCK FALSE\n",
                             workers=1, timeout=120, env={"TRACE": pth}, xmx="1g"))
        res = vlib.tlc_parallel(jobs, max_parallel=8)
        shutil.rmtree(tmp, ignore_errors=True)
        acc = sum(1 for r in res if "NotAccepted" in r.violated)
        chk.cov["effect_order_traces_validated_against_Store"] = len(jobs)
        chk.cov["effect_order_traces_accepted"] = acc
        if acc < len(jobs):
            chk.notes.append({"MODEL-DRIFT": "%d of %d completed runs did not perform wipe, mkdir, logs, result, ptrwrite in the specification's order" % (len(jobs) - acc, len(jobs))})
    traces = [[e for e in t if e["ev"] != "_hooks"] for t in traces]
    clean = [[{k: v for k, v in e.items() if k not in ("stderr", "note", "point")} for e in t] for t in traces]
    fails, st, tr = vlib.judge_traces("StoreJudge", clean, shards=min(8, max(1, len(clean) // 4)))
    chk.cov["states"] += st
    chk.cov["transitions"] += tr
    chk.cov["traces_validated_against_impl"] = len(clean)
    chk.cov["evaluations"] = sum(1 for t in clean for e in t if e["ev"] == "run")
    chk.cov["events_validated"] = sum(len(t) for t in clean)
    crash_points = sorted({e.get("point") for t in traces for e in t if e.get("point")})
    chk.cov["crash_points_exercised"] = crash_points
    chk.cov["hook_drift"] = sorted({e.get("note") for t in traces for e in t if e.get("note")})
    chk.cov["distinct_nontrivial"] = len({json.dumps([e for e in t if e["ev"] == "run"], sort_keys=True) for t in clean
                                          if sum(1 for e in t if e["ev"] == "run") >= 3})
    chk.cov["rule"] = ("histories = all 3-invocation histories of MCStore (sampled in quick) wrapped in completed runs, every guarded "
                       "crash point and a SIGKILL while children run after a completed run (C13), and long random histories "
                       "(> 4 x max_retained_runs invocations, max_retained_runs 1..4); after every invocation result show, log show, "
                       "log show --id k for every slot, the run directory listing and the checkpoint are recorded; non-trivial = "
                       "at least three invocations")
    tag = TAGS[pid]
    other = {}
    for bi, si, rec, why in fails:
        if why.startswith(tag):
            chk.violation(why, "%s (history %d step %d, N=%d)" % (why, bi, si, traces[bi][0]["n"]), {"trace": traces[bi][: si + 1], "step": si})
        else:
            other[why] = other.get(why, 0) + 1
    if other:
        chk.notes.append({"rejections_belonging_to_other_properties": other})
    for t in traces[:2]:
        chk.sample([e for e in t if e["ev"] in ("reset", "run")][:10], limit=2)
    chk.assumptions += ["a guarded crash point terminates the process with _exit(137): no destructors, no flushing, like SIGKILL",
                        "runs are identified by their unique command name (cmd<k>) and by NONCE lines the helpers print",
                        "runtime_secs compared after rounding to 1e-4; timestamp ignored"]
    # ---- the composed specification (Monorail.tla) stepped through real processes, state compared after every action
    import session
    session.stage(chk, bins, pid, 20 if tier == "quick" else 300, 80)
    chk.assumptions.append("session replay: a mutating invocation is held at hook points by marker files (guarded build); the steps "
                           "between two hold points are taken as one action of Monorail.tla (CpRead+CpTruncate composed)")
    return chk.finish()


def replay(pid, path):
    obj = json.load(open(path))
    if isinstance(obj.get("replay"), dict) and obj["replay"].get("ev") == "session":
        import session
        rc = session.replay_one(pid, obj["replay"])
        if rc:
            print("VIOLATION property=%s replay=%s" % (pid, path))
        else:
            print("REPLAY: the recorded session behaviour is reproduced by the real system without a mismatch")
        return rc
    t = [{k: v for k, v in e.items() if k not in ("stderr", "note", "point")} for e in obj["replay"]["trace"]]
    fails, _, _ = vlib.judge_traces("StoreJudge", [t], shards=1)
    bad = [f for f in fails if f[3].startswith(TAGS[pid])]
    if bad:
        print("REPLAY: recorded history still rejected: %s" % bad[0][3])
        print("VIOLATION property=%s replay=%s" % (pid, path))
        return 1
    print("REPLAY: recorded history accepted")
    return 0
