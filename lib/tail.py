"""C15, C20: the log-stream listener. Tail.tla is model-checked (all interleavings of per-stream flushes onto
the shared connection, listener death at every position); real `log tail` listeners are attached to real
runs (alive, with filters, killed at chosen points); TailJudge.tla (TLC) judges the recorded outcomes and
the listener's output."""
import hashlib, json, os, random, re, signal, subprocess, time
from concurrent.futures import ThreadPoolExecutor
import vlib, fixture, runlib, logs as logslib

HDR_RE = re.compile(r"^\[monorail \| \x1b\[38;5;(?:81|214)m(stdout|stderr)\.zst\x1b\[0m \| (.+) \| (.+)\]$")
PRE_RE = re.compile(r"^\[monorail \| (stdout\.zst|stderr\.zst|stdout\.zst, stderr\.zst) \| .+ \| .+\]$")


def tail_cfg(s, nflush, admitted, hold=True, detach=True):
    return ("CONSTANTS S = %d\n NFlush = %d\n Admitted = {%s}\n HoldMutexAcrossBlock = %s\n DetachOnError = %s\nSPECIFICATION Spec\n"
            "INVARIANTS WellFormed Reassemble Filters NonInterference\nPROPERTIES AllFinish\nCHECK_DEADLOCK FALSE\n") % (
        s, nflush, ", ".join(str(a) for a in admitted), "TRUE" if hold else "FALSE", "TRUE" if detach else "FALSE")


def listening(port):
    want = ":%04X" % port
    try:
        with open("/proc/net/tcp") as f:
            for line in f.readlines()[1:]:
                parts = line.split()
                if parts[1].endswith(want) and parts[3] == "0A":
                    return True
    except OSError:
        pass
    return False


class Listener:
    def __init__(self, fx, flt):
        self.fx = fx
        self.path = os.path.join(fx.root, "tail-%d.out" % random.getrandbits(30))
        args = ["log", "tail"]
        if flt.get("stdout"):
            args.append("--stdout")
        if flt.get("stderr"):
            args.append("--stderr")
        if flt.get("targets"):
            args += ["-t"] + flt["targets"]
        if flt.get("commands"):
            args += ["-c"] + flt["commands"]
        self.out = open(self.path, "wb")
        self.p = fx.spawn(args, stdout=self.out, stderr=subprocess.DEVNULL)
        deadline = time.time() + 15
        while not listening(fx.log_port) and time.time() < deadline and self.p.poll() is None:
            time.sleep(0.005)
        self.ready = listening(fx.log_port)

    def kill(self):
        self.fx.kill_group(self.p)
        self.p.wait()
        self.out.close()

    def drain_and_kill(self):
        """The listener serves one client at a time, to the end of its stream, before accepting the next. A sentinel
        client (a well-behaved one: it reads the handshake first) therefore is served only after everything the run
        sent has been printed; when the sentinel line shows up in the output, the output is complete. No timing."""
        import socket
        sentinel = ("[sentinel %032x]" % random.getrandbits(128)).encode()
        s = socket.create_connection(("127.0.0.1", self.fx.log_port), timeout=60)
        f = s.makefile("rb")
        f.readline()                       # filter arguments sent by the listener
        s.sendall(sentinel + b"\n")
        s.shutdown(socket.SHUT_WR)
        s.close()
        deadline = time.time() + 120
        data = b""
        while time.time() < deadline:
            with open(self.path, "rb") as fh:
                data = fh.read()
            if sentinel in data:
                break
            if self.p.poll() is not None:
                break
            time.sleep(0.02)
        else:
            self.kill()
            raise vlib.ToolError("listener did not print the sentinel within 120 s")
        self.kill()
        i = data.find(sentinel)
        return data[:i] if i >= 0 else data


def stored_logs(bins, res, targets, cmds):
    """{(cmd,target,stream): bytes} of the run that just completed."""
    out = {}
    if not (isinstance(res["out"], dict) and "out" in res["out"]):
        return out
    run_dir = res["out"]["out"]["run"]["path"]
    for c in cmds:
        for t in targets:
            h = hashlib.sha256(t.encode()).hexdigest()
            for s in ("stdout", "stderr"):
                p = os.path.join(run_dir, c, h, s + ".zst")
                if os.path.exists(p):
                    out[(c, t, s)] = logslib.unzst(bins, p)
    return out


def projection(res, logs):
    doc = res["out"] if isinstance(res["out"], dict) else {}
    st = []
    for cr in doc.get("results", []):
        for g in cr.get("target_groups", []):
            for t, v in g.items():
                st.append([cr.get("command"), t, v.get("status"), v.get("code") if v.get("code") is not None else -1])
    return {"rc": res["rc"] if res["rc"] is not None else -9, "failed": bool(doc.get("failed")), "statuses": sorted(st),
            "logs": sorted([c, t, s, hashlib.sha256(b or b"<none>").hexdigest()[:16]] for (c, t, s), b in logs.items())}


# ------------------------------------------------------------------ C15
# stalled_then_killed: the listener stops reading (SIGSTOP) before the first flush reaches it and is killed with that data
# unread in its socket - the run's next write is answered with a connection reset rather than a broken pipe
KILL_POINTS = ["before_run", "during_attach", "after_connect", "mid_output", "between_groups", "after_last_output", "stalled_then_killed"]


def established(port):
    """A connection to the listener's port is ESTABLISHED (state 01) on the client side."""
    want = ":%04X" % port
    try:
        with open("/proc/net/tcp") as f:
            for line in f.readlines()[1:]:
                parts = line.split()
                if parts[2].endswith(want) and parts[3] == "01":
                    return True
    except OSError:
        pass
    return False


def c15_scenario(bins, idx, kill_point, flt, rng, cancel=False):
    """cancel: `app` exits non-zero 2.6 s (five flush periods) after its sibling `app2` has printed on both streams; `app2` is still running and is
    cancelled. What was stored of the cancelled task's output must not depend on the listener either."""
    targets = [{"path": "app"}, {"path": "app2"}, {"path": "lib", "uses": ["app", "app2"] if cancel else ["app"]}]
    if idx % 2 == 0 and not cancel:
        # long non-ASCII names, of even and of odd byte length (wherever a byte offset is taken from either end, one of
        # the two has it inside a character)
        targets += [{"path": "x" + "обработка" * 5}, {"path": "обработка" * 5}]
    fx = fixture.Fixture(bins, targets)
    tnames = [t["path"] for t in targets]
    try:
        def scripts(tag):
            for t in tnames:
                steps = [{"op": "out", "text": "%s out 1\n" % t}, {"op": "out", "stream": "stderr", "text": "%s err 1\n" % t},
                         {"op": "touch", "path": "%s-printed1-%s" % (tag, t)}]
                if kill_point == "stalled_long" and t == "app2":
                    # megabytes on both streams: more than the socket between run and listener holds
                    for sname in ("stdout", "stderr"):
                        steps.append({"op": "out", "stream": sname, "text": "".join("%s %s bulk %d %s\n" % (t, sname, i, "B" * 65000) for i in range(40))})
                if cancel:
                    if t == "app":
                        steps += [{"op": "wait", "paths": ["%s-go" % tag], "timeout_ms": 8000}, {"op": "sleep", "ms": 2600}, {"op": "exit", "code": 3}]
                    else:
                        steps += [{"op": "out", "text": "%s out 2\n" % t}, {"op": "out", "stream": "stderr", "text": "%s err 2\n" % t},
                                  {"op": "sleep", "ms": 30000}, {"op": "exit", "code": 0}]
                    fx.add_cmd(t, "build", steps, ext=".sh")
                    continue
                if t == "app":
                    steps.append({"op": "wait", "paths": ["%s-go" % tag], "timeout_ms": 8000})
                for i in range(2, 5):
                    steps.append({"op": "sleep", "ms": 560 if t == "app" else 40})
                    steps.append({"op": "out", "text": "%s out %d\n" % (t, i)})
                    steps.append({"op": "out", "stream": "stderr", "text": "%s err %d\n" % (t, i)})
                # some output is not text at all (bytes that are not valid UTF-8): what is stored is what was written
                if idx % 3 == 1 and t != "lib":
                    import base64
                    steps.append({"op": "out", "stream": "stdout" if t == "app" else "stderr",
                                  "b64": base64.b64encode(b"%s raw \xff\xfe \xc3\x28 \xed\xa0\x80 bytes\n" % t.encode()).decode()})
                    steps.append({"op": "out", "text": "%s out after raw\n" % t})
                # the output of some tasks ends in the middle of a line (no trailing newline), on either stream
                if (idx + len(t)) % 2 == 0:
                    steps.append({"op": "out", "text": "%s out unterminated" % t})
                if (idx + len(t)) % 3 == 0:
                    steps.append({"op": "out", "stream": "stderr", "text": "%s err unterminated" % t})
                steps.append({"op": "exit", "code": 0})
                fx.add_cmd(t, "build", steps, ext=".sh")
        outcomes = []
        fx.git_init()
        for way in ("none", "alive", "killed"):
            fx.reset_helper()
            scripts(way)
            lst = None
            if way != "none":
                lst = Listener(fx, flt)
                if not lst.ready:
                    raise vlib.ToolError("listener did not come up")
            go = fx.marker("%s-go" % way)
            if way == "killed" and kill_point == "before_run":
                lst.kill()
            if way == "killed" and kill_point == "during_attach":
                os.killpg(lst.p.pid, signal.SIGSTOP)      # the listener accepts nothing: the handshake cannot complete
            p = fx.spawn(["run", "-c", "build"])
            if way == "killed" and kill_point == "during_attach":
                deadline = time.time() + 10
                while not established(fx.log_port) and time.time() < deadline and p.poll() is None:
                    time.sleep(0.002)
                lst.kill()
            if way == "killed" and kill_point in ("after_connect", "mid_output"):
                m = fx.marker("%s-printed1-app" % way)
                deadline = time.time() + 20
                while not os.path.exists(m) and time.time() < deadline and p.poll() is None:
                    time.sleep(0.005)
                if kill_point == "mid_output":
                    time.sleep(0.65)          # let the first flush reach the listener
                lst.kill()
            if way == "killed" and kill_point == "stalled_then_killed":
                m = fx.marker("%s-printed1-app" % way)
                deadline = time.time() + 20
                while not os.path.exists(m) and time.time() < deadline and p.poll() is None:
                    time.sleep(0.005)
                os.killpg(lst.p.pid, signal.SIGSTOP)
                time.sleep(0.9)           # at least one flush is written to the socket and stays unread
                lst.kill()
            if way == "killed" and kill_point == "stalled_long":
                # the listener stays attached but reads nothing for longer than any patience the run might have with it
                m = fx.marker("%s-printed1-app" % way)
                deadline = time.time() + 20
                while not os.path.exists(m) and time.time() < deadline and p.poll() is None:
                    time.sleep(0.005)
                os.killpg(lst.p.pid, signal.SIGSTOP)
                with open(go, "w") as f:
                    f.write("go")
                time.sleep(33.0)
                os.killpg(lst.p.pid, signal.SIGCONT)
            if way == "killed" and kill_point == "between_groups":
                m = fx.marker("ended-%s" % fx.key_of("app2", "build"))
                deadline = time.time() + 20
                while not os.path.exists(m) and time.time() < deadline and p.poll() is None:
                    time.sleep(0.005)
                lst.kill()
            with open(go, "w") as f:
                f.write("go")
            if way == "killed" and kill_point == "after_last_output":
                m = fx.marker("started-%s" % fx.key_of("lib", "build"))
                deadline = time.time() + 30
                while not os.path.exists(m) and time.time() < deadline and p.poll() is None:
                    time.sleep(0.005)
                time.sleep(0.3)
                lst.kill()
            try:
                so, se = p.communicate(timeout=90)
            except subprocess.TimeoutExpired:
                fx.kill_group(p)
                so, se = p.communicate()
            res = fx._result(p.returncode, so, se)
            logs = stored_logs(bins, res, tnames, ["build"])
            o = projection(res, logs)
            o["way"] = way
            o["stderr_tail"] = se.decode("utf-8", "replace")[-200:]
            outcomes.append(o)
            if lst is not None and lst.p.poll() is None:
                lst.kill()
        return {"ev": "c15", "scenario": idx, "kill_point": kill_point, "filter": flt, "outcomes": outcomes}
    finally:
        fx.cleanup()


# ------------------------------------------------------------------ C20
def c20_scenario(bins, idx, nt, flt, rng, heavy=False, stall=False):
    names = runlib.NAMES
    targets = [{"path": names[i % len(names)] + ("" if i < len(names) else str(i))} for i in range(nt)]
    tnames = [t["path"] for t in targets]
    cmds = ["build"] if (rng.random() < 0.4 and not flt.get("commands")) else ["build", "test"]
    fx = fixture.Fixture(bins, targets)
    try:
        for t in tnames:
            for c in cmds:
                steps = []
                # text is not only ASCII: accented Latin, CJK and emoji (2-, 3- and 4-byte sequences), in bursts larger
                # than any relay buffer
                wide = " héllo wörld 日本語のテキスト 🙂🚀" if idx % 2 == 1 else ""
                if stall:
                    # megabytes per stream in long lines: more than the socket buffers between run and listener hold
                    for s in ("stdout", "stderr"):
                        steps.append({"op": "out", "stream": s, "text": "".join("%s %s %s bulk %d %s\n" % (t, c, s, i, "B" * 65000) for i in range(40))})
                if heavy:
                    # thousands of lines per flush on both streams at once: one flush spans many socket writes
                    n = rng.choice([600, 1500, 4000])
                    for s in ("stdout", "stderr"):
                        steps.append({"op": "out", "stream": s, "text": "".join("%s %s %s heavy %d%s\n" % (t, c, s, i, wide) for i in range(n))})
                    if t == tnames[0] and c == cmds[0]:
                        # one very long text line (several MiB) between short ones
                        steps.append({"op": "out", "text": "%s %s before long\n%s\n%s %s after long\n" % (t, c, "L" * (3 * 1024 * 1024 + 17), t, c)})
                if idx % 3 == 0 and t == tnames[-1] and c == cmds[-1]:
                    # one line longer than 64 KiB written in two pieces with more than two flush periods in between,
                    # while other tasks keep printing
                    steps.append({"op": "out", "text": "%s %s long line begins " % (t, c) + "P" * 70000})
                    steps.append({"op": "sleep", "ms": 1300})
                    steps.append({"op": "out", "text": " ... and ends\n"})
                for burst in range(rng.randint(1, 3)):
                    for i in range(rng.randint(1, 6)):
                        steps.append({"op": "out", "text": "%s %s out b%d l%d %s%s\n" % (t, c, burst, i, "x" * rng.randint(0, 60), wide)})
                        if rng.random() < 0.6:
                            steps.append({"op": "out", "stream": "stderr", "text": "%s %s err b%d l%d\n" % (t, c, burst, i)})
                    steps.append({"op": "sleep", "ms": rng.choice([30, 200, 520, 610])})
                steps.append({"op": "exit", "code": 0})
                fx.add_cmd(t, c, steps, ext=".sh")
        fx.git_init()
        f2 = dict(flt)
        if f2.get("targets"):
            f2["targets"] = [tnames[i % nt] if isinstance(i, int) else i for i in f2["targets"]]
        lst = Listener(fx, f2)
        if not lst.ready:
            raise vlib.ToolError("listener did not come up")
        if stall:
            # the listener stops reading for a few seconds in the middle of the run (suspended terminal, blocked pipe
            # consumer) while the tasks have megabytes to say, then resumes: nothing may be lost or cut
            import signal
            pr = fx.spawn(["run", "-c"] + cmds)
            deadline = time.time() + 30
            while os.path.getsize(lst.path) < 400 and time.time() < deadline and pr.poll() is None:
                time.sleep(0.01)
            os.killpg(lst.p.pid, signal.SIGSTOP)
            time.sleep(3.4 if stall is True else float(stall))      # however long: the run waits, nothing is given up
            os.killpg(lst.p.pid, signal.SIGCONT)
            try:
                so, se = pr.communicate(timeout=170)
            except subprocess.TimeoutExpired:
                fx.kill_group(pr)
                raise vlib.ToolError("run did not finish after the listener resumed")
            if pr.returncode < 0:
                raise vlib.ToolError("run was killed by signal %d" % -pr.returncode)
            res = fx._result(pr.returncode, so, se)
        else:
            res = fx.monorail(["run", "-c"] + cmds, timeout=120)
        raw = lst.drain_and_kill()
        logs = stored_logs(bins, res, tnames, cmds)
        text = raw.decode("utf-8", "replace")
        lines = text.split("\n")
        if lines and lines[-1] == "":
            lines.pop()
        preamble_ok = bool(lines) and bool(PRE_RE.match(lines[0]))
        blocks, orphans = [], 0
        cur = None
        for ln in lines[1:] if preamble_ok else lines:
            m = HDR_RE.match(ln)
            if m:
                cur = {"stream": m.group(1), "target": m.group(2), "cmd": m.group(3), "lines": []}
                blocks.append(cur)
            elif cur is None:
                orphans += 1
            else:
                cur["lines"].append(ln)
        # long lines travel to the judge as digests (equality of line sequences is what Reassemble compares)
        def dg(ln):
            return ln if len(ln) <= 256 else "#%s:%d" % (hashlib.sha256(ln.encode("utf-8", "replace")).hexdigest()[:20], len(ln))
        for b in blocks:
            b["lines"] = [dg(x) for x in b["lines"]]
        tasks = []
        for (c, t, s), b in sorted(logs.items()):
            sl = (b or b"").decode("utf-8", "replace").split("\n")
            if sl and sl[-1] == "":
                sl.pop()
            tasks.append({"stream": s, "target": t, "cmd": c, "stored": [dg(x) for x in sl]})
        return {"ev": "c20", "scenario": idx, "filter": {"stdout": bool(f2.get("stdout")), "stderr": bool(f2.get("stderr")),
                                                         "targets": f2.get("targets", []), "commands": f2.get("commands", [])},
                "tasks": tasks, "blocks": blocks, "orphans": orphans, "preamble_ok": preamble_ok, "rc": res["rc"] if res["rc"] is not None else -9}
    finally:
        fx.cleanup()


class SlowListener(Listener):
    """A listener whose own output is consumed slowly (a terminal over a slow link, a pager, a FIFO): its standard output
    is a pipe that the driver drains at a bounded rate until told otherwise."""
    def __init__(self, fx, flt, rate=250000):
        import threading
        self.fx = fx
        self.path = os.path.join(fx.root, "tail-%d.out" % random.getrandbits(30))
        args = ["log", "tail"] + (["--stdout"] if flt.get("stdout") else []) + (["--stderr"] if flt.get("stderr") else [])
        self.out = open(self.path, "wb")
        self.p = fx.spawn(args, stdout=subprocess.PIPE, stderr=subprocess.DEVNULL)
        self.fast = False
        def pump():
            fd = self.p.stdout.fileno()
            while True:
                try:
                    b = os.read(fd, 16384)
                except OSError:
                    break
                if not b:
                    break
                self.out.write(b)
                self.out.flush()
                if not self.fast:
                    time.sleep(len(b) / float(rate))
        self.th = threading.Thread(target=pump, daemon=True)
        self.th.start()
        deadline = time.time() + 15
        while not listening(fx.log_port) and time.time() < deadline and self.p.poll() is None:
            time.sleep(0.005)
        self.ready = listening(fx.log_port)

    def kill(self):
        self.fx.kill_group(self.p)
        self.p.wait()
        self.th.join(timeout=10)
        self.out.close()


def c20_two_runs_scenario(bins, idx, nt, rng):
    """Two runs one straight after the other while the listener is still printing the first one's backlog: the second
    run's connection is served after the first one's, never mixed into it."""
    targets = [{"path": "t%d" % i} for i in range(nt)]
    fx = fixture.Fixture(bins, targets)
    tnames = [t["path"] for t in targets]
    cmds = ["build", "test"]
    try:
        for t in tnames:
            for c in cmds:
                steps = []
                for s_ in ("stdout", "stderr"):
                    steps.append({"op": "out", "stream": s_, "text": "".join("%s %s %s line %d %s\n" % (t, c, s_, i, "z" * 80) for i in range(2500))})
                steps.append({"op": "exit", "code": 0})
                fx.add_cmd(t, c, steps, ext=".sh")
        fx.git_init()
        flt = {"stdout": True, "stderr": True}
        lst = SlowListener(fx, flt)
        if not lst.ready:
            raise vlib.ToolError("listener did not come up")
        r1 = fx.monorail(["run", "-c", "build"], timeout=170)
        r2 = fx.monorail(["run", "-c", "test"], timeout=170)
        lst.fast = True
        raw = lst.drain_and_kill()
        logs = {}
        logs.update(stored_logs(bins, r1, tnames, ["build"]))
        logs.update(stored_logs(bins, r2, tnames, ["test"]))
        lines = raw.decode("utf-8", "replace").split("\n")
        if lines and lines[-1] == "":
            lines.pop()
        preamble_ok = bool(lines) and bool(PRE_RE.match(lines[0]))
        blocks, orphans, cur = [], 0, None
        for ln in lines[1:] if preamble_ok else lines:
            m = HDR_RE.match(ln)
            if m:
                cur = {"stream": m.group(1), "target": m.group(2), "cmd": m.group(3), "lines": []}
                blocks.append(cur)
            elif PRE_RE.match(ln):
                cur = None                  # the stream header of the next client
            elif cur is None:
                orphans += 1
            else:
                cur["lines"].append(ln)
        def dg(ln):
            return ln if len(ln) <= 256 else "#%s:%d" % (hashlib.sha256(ln.encode("utf-8", "replace")).hexdigest()[:20], len(ln))
        for b in blocks:
            b["lines"] = [dg(x) for x in b["lines"]]
        tasks = []
        for (c, t, s_), b in sorted(logs.items()):
            sl = (b or b"").decode("utf-8", "replace").split("\n")
            if sl and sl[-1] == "":
                sl.pop()
            tasks.append({"stream": s_, "target": t, "cmd": c, "stored": [dg(x) for x in sl]})
        rc = max(abs(r1["rc"] if r1["rc"] is not None else 9), abs(r2["rc"] if r2["rc"] is not None else 9))
        return {"ev": "c20", "scenario": idx, "filter": {"stdout": True, "stderr": True, "targets": [], "commands": []},
                "tasks": tasks, "blocks": blocks, "orphans": orphans, "preamble_ok": preamble_ok, "rc": rc}
    finally:
        fx.cleanup()


FILTERS = [{"stdout": True, "stderr": True}, {"stdout": True}, {"stderr": True},
           {"stdout": True, "stderr": True, "commands": ["build"], "targets": [0, 1]},
           {"stdout": True, "stderr": True, "targets": [0]}, {"stdout": True, "targets": [1, 2]},
           {"stdout": True, "stderr": True, "commands": ["build"]}, {"stderr": True, "commands": ["test"], "targets": [0, 1]},
           # filters at the edges: names that are not part of the run at all (nothing is admitted), and a filter line of
           # several kilobytes (two real targets among sixty long names that do not exist)
           {"stdout": True, "stderr": True, "commands": ["no-such-command"]}, {"stdout": True, "targets": ["no/such/target"]},
           {"stdout": True, "stderr": True, "targets": [0, 1] + ["absent/%02d/%s" % (i, "n" * 90) for i in range(60)]}]


def run(pid, tier):
    chk = vlib.Check(pid, tier, "model_checking")
    bins = vlib.build()
    rng = random.Random(chk.seed)
    for name, s, nf, adm in ([("3 streams (2 admitted) x 2 flushes", 3, 2, [1, 3]), ("2 streams (both admitted) x 3 flushes", 2, 3, [1, 2])] +
                             ([("4 streams (3 admitted) x 2 flushes", 4, 2, [1, 2, 4])] if tier == "thorough" else [])):
        r = vlib.tlc("Tail", tail_cfg(s, nf, adm), workers=4, timeout=1800)
        if r.violated:
            chk.model_violation("Tail " + name, r)
        vlib.require_ok(r, "Tail")
        chk.add_model("Tail", r, name)
    jobs = []
    if pid == "C15":
        n = 0
        reps = 1 if tier == "quick" else 8
        for _ in range(reps):
            for kp in KILL_POINTS:
                for flt in ([FILTERS[n % 3]] if tier == "quick" else FILTERS[:4]):
                    f = {k: v for k, v in flt.items() if k != "targets"}
                    if "targets" in flt:
                        f["targets"] = ["app"]
                    jobs.append(("c15", n, kp, f))
                    n += 1
        jobs.append(("c15", n, "mid_output", {"stdout": True, "stderr": True, "targets": ["app2"]}))
        jobs.append(("c15", n + 1, "mid_output", {"stdout": True, "stderr": True, "targets": ["app"] + ["absent/%02d/%s" % (i, "n" * 90) for i in range(60)]}))
        jobs.append(("c15", n + 2, "after_connect", {"stdout": True, "stderr": True, "commands": ["no-such-command"]}))
        for k in range(1 if tier == "quick" else 2):
            jobs.append(("c15", 500 + k, "stalled_long", {"stdout": True, "stderr": True} if k == 0 else {"stdout": True, "targets": ["app2"]}))
        # a failing task cancels a sibling that is still running: unfiltered listener, a filter that excludes the
        # cancelled task, a listener that dies early
        for kp, f in (("before_run", {"stdout": True, "stderr": True}), ("mid_output", {"stdout": True, "stderr": True, "targets": ["app"]}),
                      ("after_connect", {"stderr": True})) + ((("during_attach", {"stdout": True}),) if tier == "thorough" else ()):
            n += 1
            jobs.append(("c15cancel", n, kp, f))
    else:
        n = 12 if tier == "quick" else 200
        sizes = [2, 3, 5, 8, 12, 20, 30]
        for i in range(n):
            jobs.append(("c20", i, sizes[i % len(sizes)], FILTERS[i % len(FILTERS)]))
    if pid == "C20":
        for k in range(2 if tier == "quick" else 8):
            jobs.append(("c20stall", 1001 + 2 * k, 4 + k % 3, FILTERS[0 if k % 2 == 0 else 1], (3.4, 7.5, 12.0, 33.0)[k % 4]))
        for k in range(1 if tier == "quick" else 4):
            jobs.append(("c20two", 2001 + k, 3 + k, None))
    def one(j):
        rr = random.Random(chk.seed * 53 + j[1])
        if j[0] == "c15":
            return c15_scenario(bins, j[1], j[2], j[3], rr)
        if j[0] == "c15cancel":
            return c15_scenario(bins, j[1], j[2], j[3], rr, cancel=True)
        if j[0] == "c20two":
            return c20_two_runs_scenario(bins, j[1], j[2], rr)
        if j[0] == "c20stall":
            return c20_scenario(bins, j[1], j[2], j[3], rr, heavy=True, stall=j[4])
        return c20_scenario(bins, j[1], j[2], j[3], rr, heavy=(j[1] % 4 == 1))
    with ThreadPoolExecutor(max_workers=8) as ex:
        recs = list(ex.map(one, jobs))
    clean = []
    for r in recs:
        r2 = json.loads(json.dumps(r))
        for o in r2.get("outcomes", []):
            o.pop("stderr_tail", None)
        clean.append(r2)
    fails, st, tr = vlib.judge("TailJudge", clean, shards=min(6, max(1, len(clean) // 4)))
    chk.cov["states"] += st
    chk.cov["transitions"] += tr
    chk.cov["traces_validated_against_impl"] = len(recs)
    chk.cov["evaluations"] = len(recs) * (3 if pid == "C15" else 1)
    if pid == "C15":
        chk.cov["kill_points"] = KILL_POINTS
        chk.cov["distinct_nontrivial"] = len({(r["kill_point"], json.dumps(r["filter"], sort_keys=True)) for r in recs})
        chk.cov["rule"] = ("each scenario runs the same 3-target plan three times: no listener, live listener, listener SIGKILLed at "
                           "the chosen point (helpers park on marker files so the kill lands exactly there); non-trivial = distinct "
                           "(kill point, filter) pairs")
    else:
        chk.cov["blocks_parsed"] = sum(len(r["blocks"]) for r in recs)
        chk.cov["distinct_nontrivial"] = sum(1 for r in recs if len(r["blocks"]) >= 3)
        chk.cov["rule"] = ("each scenario attaches a live listener with one of 7 filter combinations to a run of 2-30 tasks (1-2 "
                           "commands) printing text on both streams in bursts that straddle the flush period; the listener's output "
                           "is split at block headers; non-trivial = at least three blocks printed")
    for rec, why in fails:
        desc = why
        if rec["ev"] == "c15":
            desc = "%s [kill point %s, filter %s]" % (why, rec["kill_point"], json.dumps(rec["filter"]))
        orig = next(r for r in recs if r["scenario"] == rec["scenario"])
        chk.violation(why if rec["ev"] == "c20" else "C15:outcome depends on the listener@" + rec["kill_point"], desc, orig)
    chk.sample({k: (v if k != "blocks" else v[:3]) for k, v in clean[0].items() if k != "tasks"}, limit=1)
    chk.assumptions += ["listener readiness is detected through /proc/net/tcp (never by a probe connection)",
                        "payload lines never start with '[monorail |', so block headers are unambiguous",
                        "stored logs are compared through SHA-256 digests (C15) and as line sequences (C20; newline-terminated text)"]
    return chk.finish()


def replay(pid, path):
    obj = json.load(open(path))
    rec = json.loads(json.dumps(obj["replay"]))
    for o in rec.get("outcomes", []):
        o.pop("stderr_tail", None)
    fails, _, _ = vlib.judge("TailJudge", [rec], shards=1)
    if fails:
        print("REPLAY: record still rejected: %s" % fails[0][1])
        print("VIOLATION property=%s replay=%s" % (pid, path))
        return 1
    print("REPLAY: record accepted")
    return 0
