"""Shared machinery for the /verif checks: building, running TLC, evidence, violations."""
import json, os, re, shutil, subprocess, sys, tempfile, time, hashlib, threading
from concurrent.futures import ThreadPoolExecutor

VERIF = os.path.dirname(os.path.dirname(os.path.abspath(__file__)))
REPO = os.environ.get("VERIF_REPO", "/repo")
SPEC = os.path.join(VERIF, "spec")
# the registered checks always use /verif/harness (path dependency on /repo); the overrides exist for
# the development-time seeded-change runner (tools/seedtest.py), which points a private harness copy at
# a scratch worktree so that /repo is not disturbed
HARNESS = os.environ.get("VERIF_HARNESS", os.path.join(VERIF, "harness"))
BIN = os.path.join(HARNESS, "target", "debug")
EVIDENCE = os.environ.get("VERIF_EVIDENCE", os.path.join(VERIF, "evidence"))
REPLAYS = os.environ.get("VERIF_REPLAYS", os.path.join(VERIF, "replays"))
TLA_CP = "/opt/veriftools/tla/tla2tools.jar:/opt/veriftools/tla/CommunityModules-deps.jar"
NCPU = os.cpu_count() or 4


class ToolError(Exception):
    """Something in the machinery (not in monorail) went wrong: exit 2, never a VIOLATION."""


def log(*a):
    print(*a, file=sys.stderr, flush=True)


# ---------------------------------------------------------------------------- build
_build_lock = threading.Lock()


def build(quiet=True):
    """(Re)build harness binaries and the hooked monorail binary from /repo's working tree."""
    with _build_lock:
        env = dict(os.environ)
        env["CARGO_NET_OFFLINE"] = "true"
        t0 = time.time()
        for args in (["cargo", "build", "--offline"],
                     ["cargo", "build", "--offline", "-p", "monorail", "--bin", "monorail"]):
            p = subprocess.run(args, cwd=HARNESS, env=env, stdout=subprocess.PIPE,
                               stderr=subprocess.STDOUT, text=True)
            if p.returncode != 0:
                sys.stderr.write(p.stdout)
                raise ToolError("cargo build failed: " + " ".join(args))
        # the helper binary is hard-linked into test repositories: make sure nothing that ran there changed its mode
        for b in ("monorail", "vhelper", "vinproc"):
            try:
                os.chmod(os.path.join(BIN, b), 0o755)
            except OSError:
                pass
        if not quiet:
            log("build ok in %.1fs" % (time.time() - t0))
    return {"monorail": os.path.join(BIN, "monorail"), "vhelper": os.path.join(BIN, "vhelper"),
            "vinproc": os.path.join(BIN, "vinproc")}


# ---------------------------------------------------------------------------- TLC
class TlcResult:
    def __init__(self, rc, out, wall):
        self.rc, self.out, self.wall = rc, out, wall
        m = re.search(r"(\d+) states generated, (\d+) distinct states found", out)
        self.generated = int(m.group(1)) if m else 0
        self.distinct = int(m.group(2)) if m else 0
        self.violated = re.findall(r"Invariant (\S+) is violated", out) + \
            re.findall(r"Action property (\S+) is violated", out) + \
            (["temporal"] if "Temporal properties were violated" in out else [])
        self.error = ("Error:" in out) and not self.violated
        self.ok = (rc == 0 and "No error has been found" in out)

    def printed(self, tag):
        """JSON payloads of PrintT(<<tag, ToJson(...)>>) lines."""
        res = []
        pre = '<<"%s", "' % tag
        for line in self.out.splitlines():
            if line.startswith(pre) and line.endswith('">>'):
                body = line[len(pre):-3]
                body = body.replace('\\"', '"').replace("\\\\", "\\")
                res.append(json.loads(body))
        return res

    def printed_raw(self, tag):
        pre = '<<"%s"' % tag
        return [l for l in self.out.splitlines() if l.startswith(pre)]


def tlc(module, cfg_text, workers=1, timeout=600, env=None, xmx="4g", simulate=None,
        extra=None, deque=False, coverage=False, xss=None):
    """Run TLC on spec/<module>.tla (module may contain a subdirectory) with the given cfg text."""
    meta = tempfile.mkdtemp(prefix="tlc-")
    cfg_path = os.path.join(meta, "run.cfg")
    with open(cfg_path, "w") as f:
        f.write(cfg_text)
    java = ["java", "-XX:+UseParallelGC", "-XX:ParallelGCThreads=2", "-Xmx" + xmx,
            "-DTLA-Library=%s:%s:%s" % (SPEC, os.path.join(SPEC, "mc"), os.path.join(SPEC, "trace"))]
    if xss:
        java.append("-Xss" + xss)
    if deque:
        java.append("-Dtlc2.tool.queue.IStateQueue=StateDeque")
    cmd = ["timeout", str(timeout)] + java + ["-cp", TLA_CP, "tlc2.TLC", "-workers", str(workers),
                                             "-metadir", os.path.join(meta, "states"), "-cleanup",
                                             "-noGenerateSpecTE", "-config", cfg_path]
    if coverage:
        cmd += ["-coverage", "1"]
    if simulate:
        cmd += ["-simulate", simulate]
    if extra:
        cmd += extra
    cmd.append(os.path.join(SPEC, module + ".tla"))
    e = dict(os.environ)
    if env:
        e.update(env)
    t0 = time.time()
    p = subprocess.run(cmd, cwd=meta, env=e, stdout=subprocess.PIPE, stderr=subprocess.STDOUT, text=True,
                       errors="replace")
    wall = time.time() - t0
    shutil.rmtree(meta, ignore_errors=True)
    if p.returncode == 124:
        raise ToolError("TLC timed out after %ss on %s" % (timeout, module))
    return TlcResult(p.returncode, p.stdout, wall)


def tlc_parallel(jobs, max_parallel=None):
    """jobs: list of kwargs dicts for tlc(); runs them concurrently, returns results in order."""
    mp = max_parallel or max(1, NCPU // 2)
    with ThreadPoolExecutor(max_workers=mp) as ex:
        futs = [ex.submit(tlc, **j) for j in jobs]
        return [f.result() for f in futs]


def require_ok(res, what):
    if res.violated:
        return
    if not res.ok:
        sys.stderr.write(res.out[-4000:])
        raise ToolError("TLC failed on %s (rc=%s)" % (what, res.rc))


# ---------------------------------------------------------------------------- judge
def judge(module, records, shards=None, timeout=900, xmx="3g", extra_constants=""):
    """Have TLC judge implementation records against spec/trace/<module>.tla.

    The judge module reads IOEnv.TRACE (ndjson), consumes one record per step, prints
    <<"FAIL", ToJson([i |-> index, why |-> ...])>> for each record it cannot explain and
    <<"DONE", n>> at the end.  Returns (failures [(record, why)], states, transitions)."""
    if not records:
        return [], 0, 0
    n = len(records)
    shards = shards or max(1, min(NCPU // 2, (n + 399) // 400))
    # one record = one step of one behaviour, and TLC handles behaviours of at most 65 535 states
    shards = max(shards, (n + 59999) // 60000)
    tmp = tempfile.mkdtemp(prefix="judge-")
    jobs, chunks = [], []
    for s in range(shards):
        chunk = records[s::shards]
        if not chunk:
            continue
        path = os.path.join(tmp, "t%d.ndjson" % s)
        with open(path, "w") as f:
            for r in chunk:
                # records may be handed over as raw JSON lines (large runs keep them unparsed to bound memory)
                f.write((r if isinstance(r, str) else json.dumps(r, ensure_ascii=True)) + "\n")
        chunks.append(chunk)
        cfg = "SPECIFICATION Spec\nINVARIANT Done\nCHECK_DEADLOCK FALSE\n" + extra_constants
        jobs.append(dict(module="trace/" + module, cfg_text=cfg, workers=1, timeout=timeout,
                         env={"TRACE": path}, xmx=xmx, xss="512m"))
    results = tlc_parallel(jobs)
    shutil.rmtree(tmp, ignore_errors=True)
    fails, states, trans = [], 0, 0
    for chunk, res in zip(chunks, results):
        done = res.printed_raw("DONE")
        if not res.ok or not done:
            sys.stderr.write(res.out[-6000:])
            raise ToolError("judge %s did not complete" % module)
        m = re.search(r'<<"DONE", (\d+)>>', done[-1])
        if not m or int(m.group(1)) != len(chunk):
            raise ToolError("judge %s consumed %s of %d records" % (module, m and m.group(1), len(chunk)))
        states += res.distinct
        trans += res.generated
        for f in res.printed("FAIL"):
            rec = chunk[f["i"] - 1]
            fails.append((json.loads(rec) if isinstance(rec, str) else rec, f["why"]))
    return fails, states, trans


def judge_traces(module, behaviours, shards=None, timeout=900, xmx="3g"):
    """Like judge(), for stateful traces: each behaviour (a list of records starting with a reset record) is
    kept whole inside one shard. Returns (failures [(behaviour index, step index, record, why)], states, transitions)."""
    if not behaviours:
        return [], 0, 0
    shards = shards or max(1, min(NCPU // 2, (len(behaviours) + 19) // 20))
    shards = max(shards, (sum(len(b) for b in behaviours) + 49999) // 50000)      # TLC: behaviours of at most 65 535 states
    tmp = tempfile.mkdtemp(prefix="judge-")
    jobs, maps = [], []
    for sh in range(shards):
        mine = list(range(sh, len(behaviours), shards))
        if not mine:
            continue
        path = os.path.join(tmp, "t%d.ndjson" % sh)
        index = []
        with open(path, "w") as f:
            for bi in mine:
                for si, r in enumerate(behaviours[bi]):
                    f.write(json.dumps(r, ensure_ascii=True) + "\n")
                    index.append((bi, si))
        maps.append(index)
        cfg = "SPECIFICATION Spec\nINVARIANT Done\nCHECK_DEADLOCK FALSE\n"
        jobs.append(dict(module="trace/" + module, cfg_text=cfg, workers=1, timeout=timeout,
                         env={"TRACE": path}, xmx=xmx, xss="512m"))
    results = tlc_parallel(jobs)
    shutil.rmtree(tmp, ignore_errors=True)
    fails, states, trans = [], 0, 0
    for index, res in zip(maps, results):
        done = res.printed_raw("DONE")
        m = re.search(r'<<"DONE", (\d+)>>', done[-1]) if done else None
        if not res.ok or not m or int(m.group(1)) != len(index):
            sys.stderr.write(res.out[-6000:])
            raise ToolError("trace judge %s did not consume its whole trace" % module)
        states += res.distinct
        trans += res.generated
        for f in res.printed("FAIL"):
            bi, si = index[f["i"] - 1]
            fails.append((bi, si, behaviours[bi][si], f["why"]))
    return fails, states, trans


# ---------------------------------------------------------------------------- evidence / verdicts
def known_findings():
    p = os.path.join(VERIF, "known_findings.json")
    if not os.path.exists(p):
        return {"findings": [], "fixed": []}
    return json.load(open(p))


class Check:
    """Bookkeeping for one run of one property check."""

    def __init__(self, pid, tier, level):
        self.pid, self.tier, self.level = pid, tier, level
        self.seed = int(os.environ.get("VERIF_SEED", "1"))
        self.t0 = time.time()
        self.cov = {"states": 0, "transitions": 0, "traces_validated_against_impl": 0,
                    "evaluations": 0, "distinct_nontrivial": 0, "samples": [], "models": []}
        self.assumptions = []
        self.violations = []   # (signature, description, replay_obj)
        self.notes = []

    def add_model(self, name, res, constants=""):
        self.cov["states"] += res.distinct
        self.cov["transitions"] += res.generated
        self.cov["models"].append({"module": name, "constants": constants, "distinct_states": res.distinct,
                                   "states_generated": res.generated, "wall_s": round(res.wall, 1)})

    def model_violation(self, name, res):
        """A property violated on the specification itself: the design model is wrong (tool error)."""
        sys.stderr.write(res.out[-5000:])
        raise ToolError("specification %s violates %s on the model itself" % (name, res.violated))

    def sample(self, obj, limit=4):
        if len(self.cov["samples"]) < limit:
            self.cov["samples"].append(obj)

    def violation(self, signature, description, replay_obj):
        self.violations.append((signature, description, replay_obj))

    def finish(self):
        os.makedirs(EVIDENCE, exist_ok=True)
        kf = known_findings()
        known = {f["signature"]: f for f in kf.get("findings", []) if f.get("property") == self.pid}
        new, seen_known = [], {}
        for sig, desc, rep in self.violations:
            if sig in known:
                seen_known.setdefault(sig, desc)
            else:
                new.append((sig, desc, rep))
        for sig, desc in seen_known.items():
            print("KNOWN-FINDING: property=%s %s (%s)" % (self.pid, known[sig].get("what", sig), desc))
        replay_paths = []
        if new:
            os.makedirs(REPLAYS, exist_ok=True)
            # one replay file per distinct signature, first instance
            firsts = {}
            for sig, desc, rep in new:
                firsts.setdefault(sig, (desc, rep))
            for sig, (desc, rep) in firsts.items():
                h = hashlib.sha1((self.pid + sig + json.dumps(rep, sort_keys=True, default=str)).encode()).hexdigest()[:12]
                path = os.path.join(REPLAYS, "%s-%s.json" % (self.pid, h))
                with open(path, "w") as f:
                    json.dump({"property": self.pid, "signature": sig, "description": desc, "replay": rep,
                               "seed": self.seed, "tier": self.tier}, f, indent=1, default=str)
                replay_paths.append((sig, desc, path))
        cov = dict(self.cov)
        if not cov["samples"]:
            cov["samples"] = ["(no sample recorded)"]
        cov["known_findings_seen"] = sorted(seen_known)
        if self.notes:
            cov["notes"] = self.notes
        ev = {"property_id": self.pid, "tier": self.tier, "seed": self.seed, "level": self.level,
              "coverage": cov, "assumptions": self.assumptions,
              "wall_s": round(time.time() - self.t0, 2), "violations": len(new)}
        with open(os.path.join(EVIDENCE, self.pid + ".json"), "w") as f:
            json.dump(ev, f, indent=1, default=str)
        for sig, desc, path in replay_paths:
            log("violation [%s]: %s" % (sig, desc))
            print("VIOLATION property=%s replay=%s" % (self.pid, path))
        sys.stdout.flush()
        return 1 if new else 0


def run_check(fn, pid, tier):
    """Run a check function with uniform exit codes: 0 held, 1 violation, 2 tool error."""
    try:
        rc = fn(tier)
    except ToolError as e:
        log("TOOL-ERROR property=%s: %s" % (pid, e))
        sys.exit(2)
    except subprocess.TimeoutExpired as e:
        log("TOOL-ERROR property=%s: timeout %s" % (pid, e))
        sys.exit(2)
    sys.exit(rc)
