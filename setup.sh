#!/bin/sh
# Build the verification harness and the hooked monorail binary offline from /repo's working tree.
set -e
cd "$(dirname "$0")"
exec python3 lib/build.py
