------------------------------ MODULE Changes ------------------------------
(* A tiny git plus monorail's checkpoint: which paths `analyze --changes`     *)
(* must report (C02), what `checkpoint update/show/delete` do (C07, C19).     *)
(* Everything is an operator over an explicit repository record               *)
(*   s = [paths, ignored, commits, idx, wt, cp]                               *)
(*     paths    set of path identifiers of this behaviour                     *)
(*     ignored  subset excluded by gitignore                                  *)
(*     commits  sequence of trees (functions paths -> content id, 0 = absent) *)
(*     idx, wt  index and working tree (same shape as a tree)                 *)
(*     cp       [set, id, pend]: checkpoint present?, commit number, pending  *)
(*              map paths -> content id at update time (0 = recorded as       *)
(*              missing, -1 = not recorded)                                   *)
(* so the model checker, the trace judge and folds share the same rules.      *)
EXTENDS Integers, Sequences, FiniteSets

NoCp(s) == [set |-> FALSE, id |-> 0, pend |-> [p \in s.paths |-> -1]]
HeadTree(s) == s.commits[Len(s.commits)]
Untracked(s) == { p \in s.paths \ s.ignored : s.idx[p] = 0 /\ s.wt[p] # 0 }

(* what `git diff --name-only <tree>` lists: tree against working tree, for    *)
(* paths known to the index or the tree                                       *)
GitDiffWt(s, tree) == { p \in s.paths : \/ (s.idx[p] = 0 /\ tree[p] # 0)
                                       \/ (s.idx[p] # 0 /\ s.wt[p] # tree[p]) }
(* what C02 states: content differs from the commit, for paths git knows      *)
SpecDiffWt(s, tree) == { p \in s.paths : (s.idx[p] # 0 \/ tree[p] # 0) /\ s.wt[p] # tree[p] }
TreeDiff(s, t1, t2) == { p \in s.paths : t1[p] # t2[p] }

PendEq(s, p) == s.cp.pend[p] = s.wt[p]

(* tracked part for given begin / end (0 = not given); begin defaults to the  *)
(* checkpoint commit                                                          *)
Tracked(s, begin, end, diffwt(_, _)) ==
  LET b == IF begin # 0 THEN begin ELSE s.cp.id IN
  IF end # 0 THEN TreeDiff(s, s.commits[b], s.commits[end]) ELSE diffwt(s, s.commits[b])
ChangeSetBy(s, begin, end, diffwt(_, _)) ==
  { p \in Tracked(s, begin, end, diffwt) \cup Untracked(s) : ~PendEq(s, p) }
ChangeSet(s, begin, end)    == ChangeSetBy(s, begin, end, SpecDiffWt)     \* as C02 states it
ChangeSetGit(s, begin, end) == ChangeSetBy(s, begin, end, GitDiffWt)      \* as core/git.rs computes it

\* ---- repository edits
Write(s, p, c)  == [s EXCEPT !.wt[p] = c]
Delete(s, p)    == [s EXCEPT !.wt[p] = 0]
Move(s, p, q)   == [s EXCEPT !.wt[q] = s.wt[p], !.wt[p] = 0]
\* `git mv` renames the file and moves the INDEX ENTRY as it is (staged content, not the working-tree content)
GitMv(s, p, q)  == [s EXCEPT !.wt[q] = s.wt[p], !.wt[p] = 0, !.idx[q] = s.idx[p], !.idx[p] = 0]
Stage(s, p)     == [s EXCEPT !.idx[p] = s.wt[p]]
StageAll(s)     == [s EXCEPT !.idx = [p \in s.paths |-> IF p \in s.ignored THEN s.idx[p] ELSE s.wt[p]]]
Commit(s)       == [s EXCEPT !.commits = Append(@, s.idx)]

\* ---- checkpoint operations, as app/checkpoint.rs performs them
(* id = 0: record HEAD.  The pending map always describes this update: with  *)
(* --pending it holds the current content of every path changed against HEAD  *)
(* (plus untracked ones), otherwise it is empty.  (KeepStalePending = TRUE    *)
(* models the code as it was: the previous map survived an update that found  *)
(* nothing pending or did not ask for pending - which breaks the C07 re-flag  *)
(* law, see MCChanges.)                                                       *)
PendingPaths(s) == GitDiffWt(s, HeadTree(s)) \cup Untracked(s)
CpUpdateK(s, id, pending, keepStale) ==
  LET newid == IF id = 0 THEN Len(s.commits) ELSE id
      pc    == PendingPaths(s)
      old   == IF s.cp.set /\ keepStale THEN s.cp.pend ELSE NoCp(s).pend
      pend  == IF pending /\ pc # {} THEN [p \in s.paths |-> IF p \in pc THEN s.wt[p] ELSE -1] ELSE old
  IN [s EXCEPT !.cp = [set |-> TRUE, id |-> newid, pend |-> pend]]
CpUpdate(s, id, pending) == CpUpdateK(s, id, pending, FALSE)
CpDelete(s) == [s EXCEPT !.cp = NoCp(s)]
=============================================================================
