--------------------------------- MODULE Cli ---------------------------------
(* The shape of what the command line prints, as a function of its flags      *)
(* (beyond the listed properties; bound as a MODEL-DRIFT note).               *)
(*   analyze: `targets` and `checkpointed` always; `changes` exactly with     *)
(*   --changes or --change-targets (which implies it; an empty list when      *)
(*   there is no checkpoint: the flag is not ignored in the shape, only in    *)
(*   the content); each change carries its                                    *)
(*   `targets` exactly with --change-targets; `target_groups` exactly with    *)
(*   --target-groups; --all is the three together.                            *)
EXTENDS FiniteSets
AnalyzeKeys(f) == {"targets", "checkpointed"} \cup (IF f.changes \/ f.change_targets THEN {"changes"} ELSE {})
                    \cup (IF f.target_groups THEN {"target_groups"} ELSE {})
AnalyzeShapeWhy(f, keys, changeHasTargets, checkpointed, cpExists) ==
  IF keys \ {"timestamp"} # AnalyzeKeys(f) THEN "SHAPE:analyze prints other sections than its flags select"
  ELSE IF checkpointed # cpExists THEN "SHAPE:analyze reports checkpointed wrongly"
  ELSE IF \E b \in changeHasTargets : b # f.change_targets THEN "SHAPE:per-change targets do not follow --change-targets"
  ELSE ""
(* target show: `targets` always; `target_groups` exactly with --target-groups; a target carries `commands` /      *)
(* `argmaps` only with --commands / --argmaps (and then only when it has any)                                      *)
TargetShowShapeWhy(f, keys, anyCommands, anyArgmaps) ==
  IF keys \ {"timestamp"} # ({"targets"} \cup (IF f.target_groups THEN {"target_groups"} ELSE {}))
  THEN "SHAPE:target show prints other sections than its flags select"
  ELSE IF anyCommands /\ ~f.commands THEN "SHAPE:commands listed without --commands"
  ELSE IF anyArgmaps /\ ~f.argmaps THEN "SHAPE:argmaps listed without --argmaps"
  ELSE ""
=============================================================================
