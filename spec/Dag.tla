-------------------------------- MODULE Dag --------------------------------
(* Dependency graphs over an arbitrary node set: reachability, cycles, the  *)
(* Kahn layering written the way core/graph.rs computes it, and what a      *)
(* valid layering is (properties C03, C09).                                 *)
(* a is a function Node -> SUBSET Node: a[n] = nodes n depends on.          *)
EXTENDS Naturals, Sequences, FiniteSets

RECURSIVE ReachFrom(_, _, _)
ReachFrom(a, frontier, seen) ==
  IF frontier = {} THEN seen
  ELSE LET nxt == (UNION { a[n] : n \in frontier }) \ seen
       IN ReachFrom(a, nxt, seen \cup nxt)

\* roots plus everything they transitively depend on
Closure(a, rs) == ReachFrom(a, rs, rs)

OnCycle(a, n) == n \in ReachFrom(a, a[n], a[n])
Cyclic(a, S)  == \E n \in S : OnCycle(a, n)

(* Kahn layering over the visible set V as graph.rs does it: in-degrees are *)
(* counted over edges leaving visible nodes; layer k = the nodes whose last *)
(* visible dependent was emitted in layer k-1; the result is reversed so    *)
(* that dependencies come first.                                            *)
RECURSIVE Kahn(_, _, _, _)
Kahn(a, V, done, acc) ==
  LET ready == { n \in V \ done : \A m \in V : n \in a[m] => m \in done }
  IN IF ready = {} THEN [groups |-> acc, leftover |-> V \ done]
     ELSE Kahn(a, V, done \cup ready, Append(acc, ready))

Rev(s) == [ i \in 1..Len(s) |-> s[Len(s) + 1 - i] ]

Layering(a, rs) ==
  LET V == Closure(a, rs)
      k == Kahn(a, V, {}, <<>>)
  IN IF k.leftover # {} THEN [ok |-> FALSE, groups |-> <<>>]
     ELSE [ok |-> TRUE, groups |-> Rev(k.groups)]

(* g (a sequence of sets) is a valid dependency layering of exactly S       *)
ValidLayering(a, S, g) ==
  /\ UNION { g[i] : i \in DOMAIN g } = S
  /\ \A i, j \in DOMAIN g : i # j => g[i] \cap g[j] = {}
  /\ \A i \in DOMAIN g : g[i] # {}
  /\ \A i, j \in DOMAIN g : \A t \in g[i], u \in g[j] : (u \in a[t] /\ u \in S) => j < i
=============================================================================
