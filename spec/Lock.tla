-------------------------------- MODULE Lock --------------------------------
(* Contending mutating invocations (run, checkpoint update, checkpoint delete, *)
(* out delete) sharing one lock address (C14).  The lock is an exclusive TCP    *)
(* bind held for the life of the process: it is released by the operating      *)
(* system when the holder exits or is killed.                                  *)
EXTENDS Integers, FiniteSets
CONSTANTS Procs, Apis, StepsOf   \* StepsOf[api] = number of store-mutating effects the API performs
VARIABLES pc, api, left, holder, store, touchedBy
vars == <<pc, api, left, holder, store, touchedBy>>
\* pc: "init" -> "cfg" -> ("holding" -> ... -> "done") | "lockfail" ; "dead" after Kill

Init == /\ pc = [p \in Procs |-> "init"] /\ api \in [Procs -> Apis] /\ left = [p \in Procs |-> 0]
        /\ holder = 0 /\ store = 0 /\ touchedBy = [p \in Procs |-> FALSE]
LoadCfg(p) == pc[p] = "init" /\ pc' = [pc EXCEPT ![p] = "cfg"] /\ UNCHANGED <<api, left, holder, store, touchedBy>>
TryAcquire(p) == /\ pc[p] = "cfg"
                 /\ IF holder = 0
                    THEN /\ holder' = p /\ pc' = [pc EXCEPT ![p] = "holding"] /\ left' = [left EXCEPT ![p] = StepsOf[api[p]]]
                    ELSE /\ pc' = [pc EXCEPT ![p] = "lockfail"] /\ UNCHANGED <<holder, left>>
                 /\ UNCHANGED <<api, store, touchedBy>>
Mutate(p) == /\ pc[p] = "holding" /\ left[p] > 0 /\ left' = [left EXCEPT ![p] = @ - 1]
             /\ store' = (store + 1) % 3 /\ touchedBy' = [touchedBy EXCEPT ![p] = TRUE]
             /\ UNCHANGED <<pc, api, holder>>
Exit(p) == /\ pc[p] = "holding" /\ pc' = [pc EXCEPT ![p] = "done"] /\ holder' = 0   \* normal exit or failure part-way
           /\ UNCHANGED <<api, left, store, touchedBy>>
Kill(p) == /\ pc[p] \in {"init", "cfg", "holding"} /\ pc' = [pc EXCEPT ![p] = "dead"]
           /\ holder' = (IF holder = p THEN 0 ELSE holder) /\ UNCHANGED <<api, left, store, touchedBy>>
Next == \E p \in Procs : LoadCfg(p) \/ TryAcquire(p) \/ Mutate(p) \/ Exit(p) \/ Kill(p)
Spec == Init /\ [][Next]_vars

MutualExclusion == Cardinality({p \in Procs : pc[p] = "holding"}) <= 1
HolderConsistent == \A p \in Procs : pc[p] = "holding" <=> holder = p
LoserIsInert == \A p \in Procs : pc[p] = "lockfail" => ~touchedBy[p]
ReleasedOnExitOrKill == (\A p \in Procs : pc[p] # "holding") => holder = 0
\* only a holder ever mutates
OnlyHolderMutates == [][ store' # store => \E p \in Procs : pc[p] = "holding" /\ holder = p ]_vars
=============================================================================
