-------------------------------- MODULE Logs --------------------------------
(* The log capture pipeline of one target group (app/log.rs): per stream a     *)
(* child writes chunks into a pipe; `process_reader` reads up to the next      *)
(* newline (read_until), keeping an unterminated tail in a partial buffer,     *)
(* collects complete lines, and on every flush tick or at EOF hands the        *)
(* collected lines to its compressor thread (stream k -> thread k mod 2, FIFO  *)
(* channel), which appends them to the stream's file and finishes the file on  *)
(* End.  Property C08: at quiescence every file holds exactly the bytes        *)
(* written to its stream, in order, and nothing else.                          *)
(*                                                                             *)
(* PartialSurvivesTick = FALSE models the reader as it was: when the tick      *)
(* branch of select! won, the partially filled buffer was dropped.             *)
EXTENDS Integers, Sequences, FiniteSets, TLC
CONSTANTS S, Scripts, MaxTicks, PartialSurvivesTick
NL == "n"
Streams == 1..S
NThreads == 2
ThreadOf(i) == ((i - 1) % NThreads) + 1
VARIABLES script, todo, pipe, closed, partial, lines, chan, file, fin, rdone, ticks
vars == <<script, todo, pipe, closed, partial, lines, chan, file, fin, rdone, ticks>>

RECURSIVE Flat(_)
Flat(ss) == IF ss = <<>> THEN <<>> ELSE Head(ss) \o Flat(Tail(ss))
\* bytes are tagged with their stream so that isolation is expressible
Tag(i, bs) == [j \in 1..Len(bs) |-> <<i, bs[j]>>]

Init == /\ script \in [Streams -> Scripts]
        /\ todo = [i \in Streams |-> [c \in 1..Len(script[i]) |-> Tag(i, script[i][c])]]
        /\ pipe = [i \in Streams |-> <<>>] /\ closed = [i \in Streams |-> FALSE]
        /\ partial = [i \in Streams |-> <<>>] /\ lines = [i \in Streams |-> <<>>]
        /\ chan = [k \in 1..NThreads |-> <<>>]
        /\ file = [i \in Streams |-> <<>>] /\ fin = [i \in Streams |-> FALSE]
        /\ rdone = [i \in Streams |-> FALSE] /\ ticks = [i \in Streams |-> 0]

ChildWrite(i) == /\ todo[i] # <<>> /\ pipe' = [pipe EXCEPT ![i] = @ \o Head(todo[i])] /\ todo' = [todo EXCEPT ![i] = Tail(@)]
                 /\ UNCHANGED <<script, closed, partial, lines, chan, file, fin, rdone, ticks>>
ChildClose(i) == /\ todo[i] = <<>> /\ ~closed[i] /\ closed' = [closed EXCEPT ![i] = TRUE]
                 /\ UNCHANGED <<script, todo, pipe, partial, lines, chan, file, fin, rdone, ticks>>
FirstNL(bs) == IF \E j \in 1..Len(bs) : bs[j][2] = NL
               THEN CHOOSE j \in 1..Len(bs) : bs[j][2] = NL /\ \A m \in 1..(j - 1) : bs[m][2] # NL ELSE 0
\* read_until('\n'): consume the pipe up to and including the first newline, else everything there is
Read(i) == /\ ~rdone[i] /\ pipe[i] # <<>>
           /\ LET j == FirstNL(pipe[i]) IN
              IF j = 0 THEN /\ partial' = [partial EXCEPT ![i] = @ \o pipe[i]] /\ pipe' = [pipe EXCEPT ![i] = <<>>] /\ UNCHANGED lines
              ELSE /\ lines' = [lines EXCEPT ![i] = Append(@, partial[i] \o SubSeq(pipe[i], 1, j))]
                   /\ partial' = [partial EXCEPT ![i] = <<>>]
                   /\ pipe' = [pipe EXCEPT ![i] = SubSeq(@, j + 1, Len(@))]
           /\ UNCHANGED <<script, todo, closed, chan, file, fin, rdone, ticks>>
Send(k, m) == chan' = [chan EXCEPT ![k] = Append(@, m)]
\* the periodic flush: complete lines go to the compressor; the partial buffer must survive
Tick(i) == /\ ~rdone[i] /\ ticks[i] < MaxTicks /\ ticks' = [ticks EXCEPT ![i] = @ + 1]
           /\ IF lines[i] # <<>> THEN Send(ThreadOf(i), [t |-> "data", s |-> i, d |-> Flat(lines[i])]) ELSE UNCHANGED chan
           /\ lines' = [lines EXCEPT ![i] = <<>>]
           /\ partial' = IF PartialSurvivesTick THEN partial ELSE [partial EXCEPT ![i] = <<>>]
           /\ UNCHANGED <<script, todo, pipe, closed, file, fin, rdone>>
Eof(i) == /\ ~rdone[i] /\ pipe[i] = <<>> /\ closed[i]
          /\ LET ls == IF partial[i] = <<>> THEN lines[i] ELSE Append(lines[i], partial[i])
                 k == ThreadOf(i)
                 c1 == IF ls # <<>> THEN Append(chan[k], [t |-> "data", s |-> i, d |-> Flat(ls)]) ELSE chan[k]
             IN chan' = [chan EXCEPT ![k] = Append(c1, [t |-> "end", s |-> i, d |-> <<>>])]
          /\ lines' = [lines EXCEPT ![i] = <<>>] /\ partial' = [partial EXCEPT ![i] = <<>>]
          /\ rdone' = [rdone EXCEPT ![i] = TRUE]
          /\ UNCHANGED <<script, todo, pipe, closed, file, fin, ticks>>
Recv(k) == /\ chan[k] # <<>>
           /\ LET m == Head(chan[k]) IN
              IF m.t = "data" THEN file' = [file EXCEPT ![m.s] = @ \o m.d] /\ UNCHANGED fin
              ELSE fin' = [fin EXCEPT ![m.s] = TRUE] /\ UNCHANGED file
           /\ chan' = [chan EXCEPT ![k] = Tail(@)]
           /\ UNCHANGED <<script, todo, pipe, closed, partial, lines, rdone, ticks>>
Next == \/ \E i \in Streams : ChildWrite(i) \/ ChildClose(i) \/ Read(i) \/ Tick(i) \/ Eof(i)
        \/ \E k \in 1..NThreads : Recv(k)
Spec == Init /\ [][Next]_vars

Written(i) == Tag(i, Flat(script[i]))
IsPrefixOf(a, b) == Len(a) <= Len(b) /\ SubSeq(b, 1, Len(a)) = a
ByteExact == \A i \in Streams : fin[i] => file[i] = Written(i)
FilePrefix == \A i \in Streams : IsPrefixOf(file[i], Written(i))
Isolation == \A i \in Streams : \A j \in 1..Len(file[i]) : file[i][j][1] = i
\* what the judge of a recorded capture uses: stored bytes of a stream = concatenation of its chunks
StoredOK(chunks, stored) == stored = Flat(chunks)
=============================================================================
