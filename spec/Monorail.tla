------------------------------ MODULE Monorail ------------------------------
(* Composition: one repository (Changes), its out directory (Store + the       *)
(* checkpoint file) and its lock, with several CLI invocations in flight and   *)
(* an environment that edits and commits.  One action per step an invocation   *)
(* really takes: load + try-lock, read (checkpoint + git state, one instant),  *)
(* each store effect of `run`, the two steps of the checkpoint file's in-place  *)
(* rewrite, release on exit, and Crash at any point.  Readers (analyze, result  *)
(* show) take no lock.                                                         *)
(*                                                                             *)
(* Cross-cutting obligations checked here, beyond the per-module ones:         *)
(*   MutationsUnderLock   checkpoint and store only change in steps of the     *)
(*                        lock holder (C14 composed with C12/C19)              *)
(*   ResultShowNeverTorn  a reader's `result show`, at ANY moment, returns the *)
(*                        last completed run or nothing (C12/C13 for readers)  *)
(*   RunCoversAffected    a run's recorded target set is exactly the set       *)
(*                        affected by the change set at the instant it read    *)
(*                        repository and checkpoint (C05/C07)                  *)
(*   AnalyzeNeverMixes    analyze answers relative to a checkpoint some update *)
(*                        wrote, or fails while the file is being rewritten -  *)
(*                        never relative to a half-written one                 *)
EXTENDS Changes, Store, Targets, TLC
CONSTANTS Procs, Paths, Cfg, Comp, N, MaxRuns, MaxCommits, MaxEdits
\* Cfg: configuration record (Targets.tla); Comp: [Paths -> component sequence]
VARIABLES repo, store, cpfile, holder, inv, nruns, nedits, actor, obs
vars == <<repo, store, cpfile, holder, inv, nruns, nedits, actor, obs>>
\* cpfile: "ok" | "torn" (truncated, not yet rewritten).  inv[p] = [api, pc, r, k, targets, e]
Idle == [api |-> "none", pc |-> "idle", r |-> 0, k |-> 0, targets |-> {}, e |-> 0]
Mutating == {"run", "cp_update", "cp_delete", "out_delete"}
Readers == {"analyze", "result_show"}
Effs == Effects(TRUE)
AllTargets == TPaths(Cfg)
AffectedNow == IF repo.cp.set THEN AffectedLo(Cfg, { Comp[p] : p \in ChangeSet(repo, 0, 0) }) ELSE AllTargets

Init == /\ LET t0 == [p \in Paths |-> 1] IN
           repo = [paths |-> Paths, ignored |-> {}, commits |-> <<t0>>, idx |-> t0, wt |-> t0,
                   cp |-> [set |-> FALSE, id |-> 0, pend |-> [p \in Paths |-> -1]]]
        /\ store = Store0(N) /\ cpfile = "ok" /\ holder = 0
        /\ inv = [p \in Procs |-> Idle] /\ nruns = 0 /\ nedits = 0 /\ actor = 0 /\ obs = [k |-> "none"]

\* ---- environment
EnvEdit(p, c) == /\ nedits < MaxEdits /\ repo.wt[p] # c /\ repo' = Write(repo, p, c) /\ nedits' = nedits + 1 /\ actor' = 0
                 /\ UNCHANGED <<store, cpfile, holder, inv, nruns, obs>>
EnvCommitAll == /\ Len(repo.commits) < MaxCommits /\ repo.wt # HeadTree(repo)
                /\ repo' = Commit(StageAll(repo)) /\ actor' = 0 /\ UNCHANGED <<store, cpfile, holder, inv, nruns, nedits, obs>>

\* ---- invocations
Start(p, api) == /\ inv[p] = Idle /\ (api = "run" => nruns < MaxRuns)
                 /\ inv' = [inv EXCEPT ![p] = [Idle EXCEPT !.api = api, !.pc = "start"]]
                 /\ actor' = p /\ UNCHANGED <<repo, store, cpfile, holder, nruns, nedits, obs>>
TryLock(p) == /\ inv[p].pc = "start" /\ inv[p].api \in Mutating
              /\ IF holder = 0 THEN holder' = p /\ inv' = [inv EXCEPT ![p].pc = "held"]
                 ELSE inv' = [inv EXCEPT ![p] = Idle] /\ UNCHANGED holder          \* lock error: exits, inert
              /\ actor' = p /\ UNCHANGED <<repo, store, cpfile, nruns, nedits, obs>>
Release(p) == /\ holder' = (IF holder = p THEN 0 ELSE holder) /\ inv' = [inv EXCEPT ![p] = Idle]
\* run: one instant reads pointer, checkpoint and git state
RunRead(p) == /\ inv[p].pc = "held" /\ inv[p].api = "run" /\ cpfile = "ok" /\ CanStart(store)
              /\ nruns' = nruns + 1
              /\ inv' = [inv EXCEPT ![p] = [@ EXCEPT !.pc = "effects", !.r = nruns + 1, !.k = NextSlot(store, N),
                                                    !.targets = AffectedNow, !.e = 1]]
              /\ obs' = [k |-> "run_read", targets |-> AffectedNow, want |-> AffectedNow]
              /\ actor' = p /\ UNCHANGED <<repo, store, cpfile, holder, nedits>>
RunEffect(p) == /\ inv[p].pc = "effects"
                /\ store' = Apply(store, Effs[inv[p].e], inv[p].k, inv[p].r)
                /\ IF inv[p].e = Len(Effs) THEN Release(p) ELSE inv' = [inv EXCEPT ![p].e = @ + 1] /\ UNCHANGED holder
                /\ actor' = p /\ UNCHANGED <<repo, cpfile, nruns, nedits, obs>>
\* checkpoint update --pending: the file is truncated, then rewritten (Checkpoint::save is not atomic)
CpTruncate(p) == /\ inv[p].pc = "held" /\ inv[p].api = "cp_update" /\ cpfile' = "torn"
                 /\ inv' = [inv EXCEPT ![p].pc = "cpwrite"] /\ actor' = p
                 /\ UNCHANGED <<repo, store, holder, nruns, nedits, obs>>
CpWrite(p) == /\ inv[p].pc = "cpwrite" /\ repo' = CpUpdate(repo, 0, TRUE) /\ cpfile' = "ok" /\ Release(p)
              /\ actor' = p /\ UNCHANGED <<store, nruns, nedits, obs>>
CpDeleteStep(p) == /\ inv[p].pc = "held" /\ inv[p].api = "cp_delete" /\ repo' = CpDelete(repo) /\ cpfile' = "ok" /\ Release(p)
                   /\ actor' = p /\ UNCHANGED <<store, nruns, nedits, obs>>
OutDeleteStep(p) == /\ inv[p].pc = "held" /\ inv[p].api = "out_delete"
                    /\ repo' = CpDelete(repo) /\ store' = OutDeleteAll(store, N) /\ cpfile' = "ok" /\ Release(p)
                    /\ actor' = p /\ UNCHANGED <<nruns, nedits, obs>>
\* readers: no lock, one instant
Analyze(p) == /\ inv[p].pc = "start" /\ inv[p].api = "analyze"
              /\ obs' = IF cpfile = "torn" THEN [k |-> "analyze_error"]
                        ELSE [k |-> "analyze", targets |-> AffectedNow, cp |-> repo.cp]
              /\ inv' = [inv EXCEPT ![p] = Idle] /\ actor' = p
              /\ UNCHANGED <<repo, store, cpfile, holder, nruns, nedits>>
ResultShow(p) == /\ inv[p].pc = "start" /\ inv[p].api = "result_show"
                 /\ obs' = [k |-> "result_show", run |-> ResultShows(store, N), last |-> store.last]
                 /\ inv' = [inv EXCEPT ![p] = Idle] /\ actor' = p
                 /\ UNCHANGED <<repo, store, cpfile, holder, nruns, nedits>>
\* a mutating invocation dies: the operating system releases the lock; a torn checkpoint file stays torn
Crash(p) == /\ inv[p].pc \in {"held", "effects", "cpwrite"} /\ Release(p) /\ actor' = p
            /\ UNCHANGED <<repo, store, cpfile, nruns, nedits, obs>>

Next == \/ \E p \in Paths, c \in 1..2 : EnvEdit(p, c)
        \/ EnvCommitAll
        \/ \E p \in Procs : \/ \E api \in Mutating \cup Readers : Start(p, api)
                            \/ TryLock(p) \/ RunRead(p) \/ RunEffect(p) \/ CpTruncate(p) \/ CpWrite(p)
                            \/ CpDeleteStep(p) \/ OutDeleteStep(p) \/ Analyze(p) \/ ResultShow(p) \/ Crash(p)
Spec == Init /\ [][Next]_vars

\* ---- obligations
MutationsUnderLock == [][ (store' # store \/ repo'.cp # repo.cp \/ cpfile' # cpfile) => (actor' # 0 /\ holder = actor') ]_vars
AtMostOneHolder == Cardinality({ p \in Procs : inv[p].pc \in {"held", "effects", "cpwrite"} }) <= 1
ResultShowNeverTorn == obs.k = "result_show" => obs.run = obs.last
RunCoversAffected == obs.k = "run_read" => obs.targets = obs.want
AnalyzeNeverMixes == obs.k = "analyze" => (obs.cp.set => obs.cp.id \in 1..Len(repo.commits))
\* the in-place rewrite of the checkpoint file has a crash window (informational: not one of the listed properties)
CheckpointNeverTornAtRest == (\A p \in Procs : inv[p] = Idle) => cpfile = "ok"
=============================================================================
