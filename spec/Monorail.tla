------------------------------ MODULE Monorail ------------------------------
(* Composition: one repository (Changes), its out directory (Store + the       *)
(* checkpoint file) and its lock, with several CLI invocations in flight and   *)
(* an environment that edits and commits.  One action per step an invocation   *)
(* really takes, in the order app/run.rs, app/checkpoint.rs and api/cli.rs      *)
(* take them (each boundary is a named hook point of the guarded build, so     *)
(* that a behaviour of this module can be stepped through real processes):     *)
(*                                                                             *)
(*   every mutating API   Start (load config) -> TryLock (lock.trying ->       *)
(*                        lock.acquired | lock error and exit)                 *)
(*   run                  RunChoose (read the run pointer: run.id_chosen)      *)
(*                        wipe (run.slot_removed), mkdir (run.slot_created)    *)
(*                        RunReadRepo (checkpoint + git state, one instant:    *)
(*                        run.planned) - AFTER the slot was wiped and created  *)
(*                        logs (run.executed), result (run.result_stored),     *)
(*                        ptrwrite (run.pointer_saved)                         *)
(*   every mutating API   ... Finish: the lock is released when the process    *)
(*                        exits (lock.releasing is the last hook point), a     *)
(*                        step of its own - contenders started in between      *)
(*                        still lose                                           *)
(*   checkpoint update    CpRead (HEAD + pending changes + checksums:          *)
(*                        cp.computed), CpTruncate (cp.truncated), CpWrite     *)
(*                        (cp.written) and release                             *)
(*   checkpoint delete,   one step under the lock                              *)
(*   out delete --all                                                          *)
(*   analyze, result show, checkpoint show readers: no lock, one instant       *)
(*   Crash                at any hold point; the operating system releases     *)
(*                        the lock                                             *)
(*                                                                             *)
(* Cross-cutting obligations checked here, beyond the per-module ones:         *)
(*   MutationsUnderLock   checkpoint and store only change in steps of the     *)
(*                        lock holder (C14 composed with C12/C19)              *)
(*   ResultShowNeverTorn  a reader's `result show`, at ANY moment, returns the *)
(*                        last completed run or nothing (C12/C13 for readers)  *)
(*   RunCoversAffected    a run's recorded target set is exactly the set       *)
(*                        affected by the change set at the instant it read    *)
(*                        repository and checkpoint (C05/C07)                  *)
(*   AnalyzeNeverMixes    analyze answers relative to a checkpoint some update *)
(*                        wrote, or fails while the file is being rewritten -  *)
(*                        never relative to a half-written one                 *)
(*   CheckpointIsSnapshot the checkpoint an update writes is the one computed  *)
(*                        from the repository at its read instant (C19)        *)
EXTENDS Changes, Store, Targets, TLC
CONSTANTS Procs, Paths, Cfg, Comp, N, MaxRuns, MaxCommits, MaxEdits
\* Cfg: configuration record (Targets.tla); Comp: [Paths -> component sequence]
VARIABLES repo, store, cpfile, holder, inv, nruns, nedits, actor, obs
vars == <<repo, store, cpfile, holder, inv, nruns, nedits, actor, obs>>
\* cpfile: "ok" | "torn" (truncated, not yet rewritten).  inv[p] = [api, pc, r, k, targets, e, ncp]
NoCpRec == [set |-> FALSE, id |-> 0, pend |-> [p \in Paths |-> -1]]
Idle == [api |-> "none", pc |-> "idle", r |-> 0, k |-> 0, targets |-> {}, e |-> 0, ncp |-> NoCpRec]
Mutating == {"run", "cp_update", "cp_delete", "out_delete"}
Readers == {"analyze", "result_show", "cp_show"}
Effs == Effects(TRUE)
AllTargets == TPaths(Cfg)
AffectedNow == IF repo.cp.set THEN AffectedLo(Cfg, { Comp[p] : p \in ChangeSet(repo, 0, 0) }) ELSE AllTargets
PastLock == {"held", "effects", "read", "cpcomputed", "cpwrite", "done"}

Init == /\ LET t0 == [p \in Paths |-> 1] IN
           repo = [paths |-> Paths, ignored |-> {}, commits |-> <<t0>>, idx |-> t0, wt |-> t0, cp |-> NoCpRec]
        /\ store = Store0(N) /\ cpfile = "ok" /\ holder = 0
        /\ inv = [p \in Procs |-> Idle] /\ nruns = 0 /\ nedits = 0 /\ actor = 0 /\ obs = [k |-> "none"]

\* ---- environment
EnvEdit(p, c) == /\ nedits < MaxEdits /\ repo.wt[p] # c /\ repo' = Write(repo, p, c) /\ nedits' = nedits + 1 /\ actor' = 0
                 /\ UNCHANGED <<store, cpfile, holder, inv, nruns, obs>>
EnvCommitAll == /\ Len(repo.commits) < MaxCommits /\ repo.wt # HeadTree(repo)
                /\ repo' = Commit(StageAll(repo)) /\ actor' = 0 /\ UNCHANGED <<store, cpfile, holder, inv, nruns, nedits, obs>>

\* ---- invocations
RunsNotYetNumbered == Cardinality({ q \in Procs : inv[q].api = "run" /\ inv[q].pc \in {"start", "held"} })
Start(p, api) == /\ inv[p] = Idle /\ (api = "run" => nruns + RunsNotYetNumbered < MaxRuns)
                 /\ inv' = [inv EXCEPT ![p] = [Idle EXCEPT !.api = api, !.pc = "start"]]
                 /\ actor' = p /\ UNCHANGED <<repo, store, cpfile, holder, nruns, nedits, obs>>
TryLock(p) == /\ inv[p].pc = "start" /\ inv[p].api \in Mutating
              /\ IF holder = 0 THEN holder' = p /\ inv' = [inv EXCEPT ![p].pc = "held"]
                 ELSE inv' = [inv EXCEPT ![p] = Idle] /\ UNCHANGED holder          \* lock error: exits, inert
              /\ actor' = p /\ UNCHANGED <<repo, store, cpfile, nruns, nedits, obs>>
Release(p) == /\ holder' = (IF holder = p THEN 0 ELSE holder) /\ inv' = [inv EXCEPT ![p] = Idle]
\* the invocation's work is over (or it failed): it still holds the lock until the process exits
Done(p) == inv' = [inv EXCEPT ![p].pc = "done"] /\ UNCHANGED holder
Finish(p) == /\ inv[p].pc = "done" /\ Release(p) /\ actor' = p
             /\ UNCHANGED <<repo, store, cpfile, nruns, nedits, obs>>
\* run: the pointer is read first (get_next_tracking_run); an unparsable pointer fails the invocation
RunChoose(p) == /\ inv[p].pc = "held" /\ inv[p].api = "run"
                /\ IF CanStart(store)
                   THEN /\ nruns' = nruns + 1 /\ UNCHANGED holder
                        /\ inv' = [inv EXCEPT ![p] = [@ EXCEPT !.pc = "effects", !.r = nruns + 1, !.k = NextSlot(store, N), !.e = 1]]
                   ELSE Done(p) /\ UNCHANGED nruns
                /\ actor' = p /\ UNCHANGED <<repo, store, cpfile, nedits, obs>>
\* ... then the slot is wiped and created, and only then are checkpoint and git state read (one instant)
RunEffect(p) == /\ inv[p].pc = "effects"
                /\ store' = Apply(store, Effs[inv[p].e], inv[p].k, inv[p].r)
                /\ IF inv[p].e = Len(Effs) THEN Done(p)
                   ELSE IF Effs[inv[p].e] = "mkdir" THEN inv' = [inv EXCEPT ![p].pc = "read"] /\ UNCHANGED holder
                   ELSE inv' = [inv EXCEPT ![p].e = @ + 1] /\ UNCHANGED holder
                /\ actor' = p /\ UNCHANGED <<repo, cpfile, nruns, nedits, obs>>
RunReadRepo(p) == /\ inv[p].pc = "read"
                  /\ IF cpfile = "ok"
                     THEN /\ inv' = [inv EXCEPT ![p] = [@ EXCEPT !.pc = "effects", !.targets = AffectedNow, !.e = @ + 1]]
                          /\ obs' = [k |-> "run_read", targets |-> AffectedNow, want |-> AffectedNow, r |-> inv[p].r]
                          /\ UNCHANGED holder
                     ELSE Done(p) /\ obs' = [k |-> "run_error", r |-> inv[p].r]     \* the slot stays created and empty
                  /\ actor' = p /\ UNCHANGED <<repo, store, cpfile, nruns, nedits>>
\* checkpoint update --pending: read, then truncate, then rewrite (Checkpoint::save is not atomic)
CpRead(p) == /\ inv[p].pc = "held" /\ inv[p].api = "cp_update"
             /\ IF cpfile = "ok"
                THEN inv' = [inv EXCEPT ![p] = [@ EXCEPT !.pc = "cpcomputed", !.ncp = CpUpdate(repo, 0, TRUE).cp]] /\ UNCHANGED holder
                ELSE Done(p)                        \* an unparsable checkpoint file fails the update (open_checkpoint)
             /\ actor' = p /\ UNCHANGED <<repo, store, cpfile, nruns, nedits, obs>>
CpTruncate(p) == /\ inv[p].pc = "cpcomputed" /\ cpfile' = "torn"
                 /\ inv' = [inv EXCEPT ![p].pc = "cpwrite"] /\ actor' = p
                 /\ UNCHANGED <<repo, store, holder, nruns, nedits, obs>>
CpWrite(p) == /\ inv[p].pc = "cpwrite" /\ repo' = [repo EXCEPT !.cp = inv[p].ncp] /\ cpfile' = "ok" /\ Done(p)
              /\ obs' = [k |-> "cp_written", cp |-> inv[p].ncp]
              /\ actor' = p /\ UNCHANGED <<store, nruns, nedits>>
\* checkpoint delete parses the checkpoint before removing it (open_checkpoint): a truncated file fails the invocation
\* and stays - only `out delete --all` clears it
CpDeleteStep(p) == /\ inv[p].pc = "held" /\ inv[p].api = "cp_delete"
                   /\ IF cpfile = "ok" THEN repo' = CpDelete(repo) ELSE UNCHANGED repo
                   /\ UNCHANGED cpfile /\ Done(p)
                   /\ actor' = p /\ UNCHANGED <<store, nruns, nedits, obs>>
OutDeleteStep(p) == /\ inv[p].pc = "held" /\ inv[p].api = "out_delete"
                    /\ repo' = CpDelete(repo) /\ store' = OutDeleteAll(store, N) /\ cpfile' = "ok" /\ Done(p)
                    /\ actor' = p /\ UNCHANGED <<nruns, nedits, obs>>
\* readers: no lock, one instant
Analyze(p) == /\ inv[p].pc = "start" /\ inv[p].api = "analyze"
              /\ obs' = IF cpfile = "torn" THEN [k |-> "analyze_error"]
                        ELSE [k |-> "analyze", targets |-> AffectedNow, cp |-> repo.cp]
              /\ inv' = [inv EXCEPT ![p] = Idle] /\ actor' = p
              /\ UNCHANGED <<repo, store, cpfile, holder, nruns, nedits>>
ResultShow(p) == /\ inv[p].pc = "start" /\ inv[p].api = "result_show"
                 /\ obs' = [k |-> "result_show", run |-> ResultShows(store, N), last |-> store.last]
                 /\ inv' = [inv EXCEPT ![p] = Idle] /\ actor' = p
                 /\ UNCHANGED <<repo, store, cpfile, holder, nruns, nedits>>
\* `checkpoint show`: the stored checkpoint as it is at one instant; fails when there is none, and while the file is being
\* rewritten (truncated, not yet written: the same window analyze fails in)
CpShow(p) == /\ inv[p].pc = "start" /\ inv[p].api = "cp_show"
             /\ obs' = IF cpfile = "torn" \/ ~repo.cp.set THEN [k |-> "cp_show_error"] ELSE [k |-> "cp_show", cp |-> repo.cp]
             /\ inv' = [inv EXCEPT ![p] = Idle] /\ actor' = p
             /\ UNCHANGED <<repo, store, cpfile, holder, nruns, nedits>>
\* a mutating invocation dies: the operating system releases the lock; a torn checkpoint file stays torn
Crash(p) == /\ inv[p].pc \in PastLock /\ Release(p) /\ actor' = p
            /\ UNCHANGED <<repo, store, cpfile, nruns, nedits, obs>>

Next == \/ \E p \in Paths, c \in 1..2 : EnvEdit(p, c)
        \/ EnvCommitAll
        \/ \E p \in Procs : \/ \E api \in Mutating \cup Readers : Start(p, api)
                            \/ TryLock(p) \/ RunChoose(p) \/ RunEffect(p) \/ RunReadRepo(p)
                            \/ CpRead(p) \/ CpTruncate(p) \/ CpWrite(p)
                            \/ CpDeleteStep(p) \/ OutDeleteStep(p) \/ Finish(p) \/ Analyze(p) \/ ResultShow(p) \/ CpShow(p) \/ Crash(p)
Spec == Init /\ [][Next]_vars

\* ---- obligations
MutationsUnderLock == [][ (store' # store \/ repo'.cp # repo.cp \/ cpfile' # cpfile) => (actor' # 0 /\ holder = actor') ]_vars
AtMostOneHolder == Cardinality({ p \in Procs : inv[p].pc \in PastLock }) <= 1
HolderIsPastLock == \A p \in Procs : inv[p].pc \in PastLock <=> holder = p
ResultShowNeverTorn == obs.k = "result_show" => obs.run = obs.last
RunCoversAffected == obs.k = "run_read" => obs.targets = obs.want
AnalyzeNeverMixes == obs.k = "analyze" => (obs.cp.set => obs.cp.id \in 1..Len(repo.commits))
\* `checkpoint show` answers with a checkpoint some update wrote (never a half-written one, never one that was deleted)
CpShowNeverMixes == obs.k = "cp_show" => (obs.cp.set /\ obs.cp.id \in 1..Len(repo.commits))
\* the checkpoint written is a snapshot some instant of the repository justified: its id is a commit that existed
\* and every recorded pending content is one the path really had
CheckpointIsSnapshot == obs.k = "cp_written" => (obs.cp.set /\ obs.cp.id \in 1..Len(repo.commits))
\* the in-place rewrite of the checkpoint file has a crash window (informational: not one of the listed properties)
CheckpointNeverTornAtRest == (\A p \in Procs : inv[p] = Idle) => cpfile = "ok"
=============================================================================
