------------------------------- MODULE Paths -------------------------------
(* Paths are non-empty sequences of components, never strings: "whole path  *)
(* components, never raw string prefixes" is the only thing this module can *)
(* express.                                                                 *)
EXTENDS Naturals, Sequences

\* p lies inside (or is) d
Inside(p, d) == /\ Len(d) >= 1
                /\ Len(d) <= Len(p)
                /\ SubSeq(p, 1, Len(d)) = d

StrictInside(p, d) == Inside(p, d) /\ Len(p) > Len(d)

RangeOf(s) == { s[i] : i \in DOMAIN s }
=============================================================================
