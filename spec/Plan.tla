-------------------------------- MODULE Plan --------------------------------
(* What `monorail run` is asked to do, as documented: the order of commands   *)
(* (expanded sequences first, then --commands, each in the order given) and   *)
(* the argument list, working directory and executable of each task (C11).    *)
EXTENDS Naturals, Sequences, SequencesExt, FiniteSets

\* seqcfg: set of <<name, <<cmd, ...>>>>; the expansion of one sequence name
SeqDef(seqcfg, s) == (CHOOSE x \in seqcfg : x[1] = s)[2]
Expand(seqcfg, sequences, commands) ==
  FlattenSeq([ i \in DOMAIN sequences |-> SeqDef(seqcfg, sequences[i]) ]) \o commands

(* Argument list of (target, command):                                        *)
(*   base      the target's `base` argmap entry for the command (<<>> if the  *)
(*             file or the entry is absent)                                   *)
(*   named     set of <<name, args>> for the argmap files that exist and have *)
(*             an entry for the command                                       *)
(*   requested sequence of --argmaps names, in the order given                *)
(*   args      --args values                                                  *)
NamedArgs(named, m) == IF \E x \in named : x[1] = m THEN (CHOOSE x \in named : x[1] = m)[2] ELSE <<>>
Argv(base, named, requested, args, nobase) ==
  (IF nobase THEN <<>> ELSE base)
    \o FlattenSeq([ i \in DOMAIN requested |-> NamedArgs(named, requested[i]) ])
    \o args

(* Executable: the configured definition path if one is given, otherwise the  *)
(* file of the command directory whose stem equals the command name.          *)
(* candidates: set of [path, stem] for the files of the command directory.    *)
ResolveOK(defpath, hasdef, candidates, cmd, exe) ==
  IF hasdef THEN exe = defpath
  ELSE \E f \in candidates : f.stem = cmd /\ f.path = exe
(* `target show --commands` / `--argmaps`: the names listed for a target and  *)
(* the file displayed for each (beyond the listed properties; bound as a      *)
(* MODEL-DRIFT note, never as a violation).                                   *)
(*   defs        set of [name, path] - path = <<>> when the definition gives  *)
(*               none                                                         *)
(*   candidates  set of [path, stem] - regular files of the directory         *)
(* A directory file is listed under its stem unless it is itself the explicit *)
(* path of some definition. DEVIATION (as built, src/app/target.rs            *)
(* find_target_files): the directory walk runs after the definitions and      *)
(* overwrites them, so a directory file whose stem equals a defined name      *)
(* shadows that definition's explicit path in the display - while `run`       *)
(* (ResolveOK above) executes the explicit path.                              *)
DirListed(defs, candidates) == { f \in candidates : ~\E d \in defs : d.path = f.path }
ShownNames(defs, candidates) == { d.name : d \in defs } \cup { f.stem : f \in DirListed(defs, candidates) }
ShownPathOK(defs, candidates, name, shown) ==
  LET dirfiles == { f \in DirListed(defs, candidates) : f.stem = name }
      explicit == { d \in defs : d.name = name /\ d.path # <<>> }
      bystem   == { f \in candidates : f.stem = name }
  IN IF dirfiles # {} THEN \E f \in dirfiles : shown = f.path
     ELSE IF explicit # {} THEN \E d \in explicit : shown = d.path
     ELSE IF bystem # {} /\ (\E d \in defs : d.name = name) THEN \E f \in bystem : shown = f.path
     ELSE shown = <<>>
\* what `run` executes for the same name (<<>> = undefined)
RunExeOK(defs, candidates, name, exe) ==
  LET explicit == { d \in defs : d.name = name /\ d.path # <<>> } IN
  IF explicit # {} THEN \E d \in explicit : exe = d.path
  ELSE IF \E f \in candidates : f.stem = name THEN \E f \in candidates : f.stem = name /\ f.path = exe
  ELSE exe = <<>>
\* the display and the execution agree except under the deviation above
Shadowed(defs, candidates, name) ==
  /\ \E d \in defs : d.name = name /\ d.path # <<>>
  /\ \E f \in DirListed(defs, candidates) : f.stem = name
=============================================================================
