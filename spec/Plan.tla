-------------------------------- MODULE Plan --------------------------------
(* What `monorail run` is asked to do, as documented: the order of commands   *)
(* (expanded sequences first, then --commands, each in the order given) and   *)
(* the argument list, working directory and executable of each task (C11).    *)
EXTENDS Naturals, Sequences, SequencesExt, FiniteSets

\* seqcfg: set of <<name, <<cmd, ...>>>>; the expansion of one sequence name
SeqDef(seqcfg, s) == (CHOOSE x \in seqcfg : x[1] = s)[2]
Expand(seqcfg, sequences, commands) ==
  FlattenSeq([ i \in DOMAIN sequences |-> SeqDef(seqcfg, sequences[i]) ]) \o commands

(* Argument list of (target, command):                                        *)
(*   base      the target's `base` argmap entry for the command (<<>> if the  *)
(*             file or the entry is absent)                                   *)
(*   named     set of <<name, args>> for the argmap files that exist and have *)
(*             an entry for the command                                       *)
(*   requested sequence of --argmaps names, in the order given                *)
(*   args      --args values                                                  *)
NamedArgs(named, m) == IF \E x \in named : x[1] = m THEN (CHOOSE x \in named : x[1] = m)[2] ELSE <<>>
Argv(base, named, requested, args, nobase) ==
  (IF nobase THEN <<>> ELSE base)
    \o FlattenSeq([ i \in DOMAIN requested |-> NamedArgs(named, requested[i]) ])
    \o args

(* Executable: the configured definition path if one is given, otherwise the  *)
(* file of the command directory whose stem equals the command name.          *)
(* candidates: set of [path, stem] for the files of the command directory.    *)
ResolveOK(defpath, hasdef, candidates, cmd, exe) ==
  IF hasdef THEN exe = defpath
  ELSE \E f \in candidates : f.stem = cmd /\ f.path = exe
=============================================================================
