------------------------------- MODULE RunImpl -------------------------------
(* Implementation-shaped model of app/run.rs `process_plan`: the command loop, *)
(* the per-group schedule loop (members one by one, in any order), the         *)
(* JoinSet, the `failed` latch, cancellation of siblings, the two compressor   *)
(* threads and the shutdown messages sent to them, and the final exit status.  *)
(* One action per step the code takes.  The plan is chosen in Init from        *)
(* PlanSet, so one TLC run covers every plan of the bounded instance.          *)
(*                                                                             *)
(* Deliberate deviations of the code that are modelled as the code behaves:    *)
(*   CancelledSiblingReportedAsErrorWithoutCode - after one task of a group    *)
(*     fails, every sibling still being read is reported `error` without a     *)
(*     code while its process keeps running;                                   *)
(*   TolerateClosed = FALSE reproduces the shutdown protocol as it was (a send *)
(*     to a compressor thread that already exited is fatal).                   *)
EXTENDS RunRules, Sequences
CONSTANTS PlanSet,         \* set of [ncmd, req, dep, kind, fou, groups]; groups: sequence of sets
          TolerateClosed,  \* shutdown sends tolerate an already-exited compressor thread
          CanFail,         \* children may exit non-zero
          BarrierMode      \* C16: a child exits only once every member of its group has started
NThreads == 2
VARIABLES plan, ci, gi, phase, failed, child, res, joinset, sched, cancelled, thr, chan, sent, fatal, exitcode, hist
vars == <<plan, ci, gi, phase, failed, child, res, joinset, sched, cancelled, thr, chan, sent, fatal, exitcode, hist>>
View == <<plan, ci, gi, phase, failed, child, res, joinset, sched, cancelled, thr, chan, sent, fatal, exitcode>>

Task == Tasks(plan)
GroupIndex(p) == [c \in 1..p.ncmd |-> [t \in p.req |-> CHOOSE g \in DOMAIN p.groups : t \in p.groups[g]]]
\* the plan in the shape RunRules wants
PL == [ncmd |-> plan.ncmd, req |-> plan.req, dep |-> plan.dep, kind |-> plan.kind, fou |-> plan.fou,
       mode |-> plan.mode, gidx |-> GroupIndex(plan)]
Grp == plan.groups[gi]

Init == /\ plan \in PlanSet
        /\ ci = 1 /\ gi = 1 /\ phase = "cmd" /\ failed = FALSE
        /\ child = [k \in Tasks(plan) |-> "none"]      \* none | running | ok | bad
        /\ res = [k \in Tasks(plan) |-> "none"]        \* none|success|error_code|error_nocode|undefined|not_executable|skipped
        /\ joinset = {} /\ sched = {} /\ cancelled = FALSE
        /\ thr = [k \in 1..NThreads |-> "idle"]        \* idle | run | exited
        /\ chan = [k \in 1..NThreads |-> 0]            \* pending Shutdown messages
        /\ sent = 0 /\ fatal = FALSE /\ exitcode = -1 /\ hist = <<>>

\* ---- command level: a command after a failure is reported skipped as a whole
BeginCmd == /\ phase = "cmd" /\ ci <= plan.ncmd
            /\ IF failed
               THEN /\ res' = [k \in Task |-> IF k[1] = ci THEN "skipped" ELSE res[k]]
                    /\ ci' = ci + 1 /\ UNCHANGED <<gi, phase, thr, sched>>
               ELSE /\ phase' = "sched" /\ gi' = 1 /\ sched' = {}
                    /\ thr' = [k \in 1..NThreads |-> "run"] /\ UNCHANGED <<ci, res>>
            /\ UNCHANGED <<plan, failed, child, joinset, cancelled, chan, sent, fatal, exitcode, hist>>
\* ---- schedule the members of the group one by one (any order)
Sched(t) == /\ phase = "sched" /\ t \in Grp \ sched
            /\ LET k == <<ci, t>> IN
               IF failed THEN /\ res' = [res EXCEPT ![k] = "skipped"] /\ UNCHANGED <<child, joinset, failed>>
               ELSE CASE plan.kind[k] = "def"    -> /\ child' = [child EXCEPT ![k] = "running"]
                                                   /\ joinset' = joinset \cup {k} /\ UNCHANGED <<res, failed>>
                      [] plan.kind[k] = "noexec" -> /\ res' = [res EXCEPT ![k] = "not_executable"]
                                                   /\ failed' = TRUE /\ UNCHANGED <<child, joinset>>
                      [] plan.kind[k] = "undef"  -> /\ res' = [res EXCEPT ![k] = "undefined"]
                                                   /\ failed' = (failed \/ plan.fou) /\ UNCHANGED <<child, joinset>>
            /\ sched' = sched \cup {t}
            /\ UNCHANGED <<plan, ci, gi, phase, cancelled, thr, chan, sent, fatal, exitcode, hist>>
SchedDone == /\ phase = "sched" /\ sched = Grp /\ phase' = "join"
             /\ UNCHANGED <<plan, ci, gi, failed, child, res, joinset, sched, cancelled, thr, chan, sent, fatal, exitcode, hist>>
\* ---- environment: a running child exits
GroupAllStarted(k) == \A t \in Grp : plan.kind[<<k[1], t>>] = "def" => child[<<k[1], t>>] # "none"
ChildExit(k, ok) == /\ child[k] = "running" /\ (ok \/ CanFail)
                    /\ BarrierMode => GroupAllStarted(k)
                    /\ child' = [child EXCEPT ![k] = IF ok THEN "ok" ELSE "bad"]
                    /\ hist' = Append(hist, <<k[1], k[2], IF ok THEN 0 ELSE 1>>)
                    /\ UNCHANGED <<plan, ci, gi, phase, failed, res, joinset, sched, cancelled, thr, chan, sent, fatal, exitcode>>
\* ---- join_next: a finished task, or (after cancel) one whose readers observed the token first
Join(k) == /\ phase = "join" /\ k \in joinset
           /\ \/ /\ child[k] = "ok"  /\ res' = [res EXCEPT ![k] = "success"] /\ UNCHANGED <<failed, cancelled>>
              \/ /\ child[k] = "bad" /\ res' = [res EXCEPT ![k] = "error_code"] /\ failed' = TRUE /\ cancelled' = TRUE
              \/ /\ cancelled /\ res' = [res EXCEPT ![k] = "error_nocode"] /\ failed' = TRUE /\ UNCHANGED cancelled
           /\ joinset' = joinset \ {k}
           /\ UNCHANGED <<plan, ci, gi, phase, child, sched, thr, chan, sent, fatal, exitcode, hist>>
JoinDone == /\ phase = "join" /\ joinset = {} /\ phase' = "shut" /\ sent' = 0
            /\ UNCHANGED <<plan, ci, gi, failed, child, res, joinset, sched, cancelled, thr, chan, fatal, exitcode, hist>>
\* ---- shutdown loop: two sends per member (stdout client, stderr client), alternating threads
NSend == 2 * Cardinality(Grp)
SendShutdown == /\ phase = "shut" /\ sent < NSend
                /\ LET k == (sent % NThreads) + 1 IN
                   IF thr[k] = "exited" /\ ~TolerateClosed
                   THEN /\ fatal' = TRUE /\ phase' = "done" /\ exitcode' = 2 /\ UNCHANGED <<chan, sent>>
                   ELSE /\ chan' = [chan EXCEPT ![k] = IF thr[k] = "exited" THEN @ ELSE @ + 1]
                        /\ sent' = sent + 1 /\ UNCHANGED <<fatal, phase, exitcode>>
                /\ UNCHANGED <<plan, ci, gi, failed, child, res, joinset, sched, cancelled, thr, hist>>
ThreadRecv(k) == /\ thr[k] = "run" /\ chan[k] > 0 /\ thr' = [thr EXCEPT ![k] = "exited"] /\ chan' = [chan EXCEPT ![k] = 0]
                 /\ UNCHANGED <<plan, ci, gi, phase, failed, child, res, joinset, sched, cancelled, sent, fatal, exitcode, hist>>
GroupEnd == /\ phase = "shut" /\ sent = NSend /\ \A k \in 1..NThreads : thr[k] = "exited"
            /\ cancelled' = FALSE /\ sched' = {}
            /\ IF gi < Len(plan.groups)
               THEN /\ gi' = gi + 1 /\ phase' = "sched" /\ thr' = [k \in 1..NThreads |-> "run"] /\ UNCHANGED ci
               ELSE /\ ci' = ci + 1 /\ phase' = "cmd" /\ UNCHANGED <<gi, thr>>
            /\ UNCHANGED <<plan, failed, child, res, joinset, chan, sent, fatal, exitcode, hist>>
Finish == /\ phase = "cmd" /\ ci > plan.ncmd /\ phase' = "done" /\ exitcode' = IF failed THEN 1 ELSE 0
          /\ UNCHANGED <<plan, ci, gi, failed, child, res, joinset, sched, cancelled, thr, chan, sent, fatal, hist>>
Next == \/ BeginCmd \/ SchedDone \/ JoinDone \/ SendShutdown \/ GroupEnd \/ Finish
        \/ \E t \in plan.req : Sched(t)
        \/ \E k \in Task, ok \in BOOLEAN : ChildExit(k, ok)
        \/ \E k \in Task : Join(k)
        \/ \E k \in 1..NThreads : ThreadRecv(k)
Spec == Init /\ [][Next]_vars /\ WF_vars(Next)

\* ---------------- refinement to the property-level rules
AbsSt == [started |-> { k \in Task : child[k] # "none" },
          ended   |-> { k \in Task : child[k] \in {"ok", "bad"} },
          code    |-> [ k \in { j \in Task : child[j] \in {"ok", "bad"} } |-> IF child[k] = "ok" THEN 0 ELSE 1 ]]
DocOf(k) == CASE res[k] = "success"     -> [status |-> "success", code |-> 0]
              [] res[k] = "error_code"  -> [status |-> "error", code |-> 1]
              [] res[k] = "error_nocode"-> [status |-> "error", code |-> -1]
              [] OTHER                  -> [status |-> res[k], code |-> -1]
Doc == [k \in Task |-> DocOf(k)]

\* every process start the scheduler performs is one the property-level rules allow (C04, C05, C06)
StartsAllowed == [][ \A k \in Task : (child[k] = "none" /\ child'[k] = "running") => StartOK(PL, AbsSt, k[1], k[2]) ]_vars
\* the final document, flag and exit status are truthful (C05, C06)
FinishTruthful == (phase = "done" /\ ~fatal) => FinishOK(PL, AbsSt, Doc, failed, exitcode)
NoFatal == ~fatal
\* C16 on the model (BarrierMode): the run always completes
Terminates == <>(phase = "done")
TypeOK == /\ phase \in {"cmd", "sched", "join", "shut", "done"}
          /\ \A k \in Task : res[k] # "none" => k \notin joinset
=============================================================================
