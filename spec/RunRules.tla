------------------------------ MODULE RunRules ------------------------------
(* Property-level rules of `monorail run` (C04, C05, C06, C16), written as    *)
(* operators over an explicit plan record and an explicit observation state, *)
(* so that the model-checked scheduler (RunImpl), the permissive scheduler    *)
(* (RunSpec) and the judge of recorded runs (RunJudge) share one source of    *)
(* truth.                                                                     *)
(*                                                                            *)
(* pl: [ncmd, req, dep, kind, fou, mode, gidx]                                *)
(*   ncmd  number of commands (already expanded: sequences first)             *)
(*   req   set of targets the run covers                                      *)
(*   dep   set of <<t, u>>: t depends on u                                    *)
(*   kind  [<<c,t>> -> "def" | "undef" | "noexec"]                            *)
(*   fou   --fail-on-undefined                                                *)
(*   mode  "graph" (groups from the dependency graph) | "serial" (-t)         *)
(*   gidx  [c -> [t -> index of t's group for command c]]                     *)
(* st: [started, ended, code]  what has been observed of the child processes  *)
EXTENDS Naturals, Integers, FiniteSets, TLC

Tasks(pl) == (1..pl.ncmd) \X pl.req
St0 == [started |-> {}, ended |-> {}, code |-> <<>>]

SchedFail(pl, k) == pl.kind[k] = "noexec" \/ (pl.kind[k] = "undef" /\ pl.fou)
ExitFail(st, k)  == k \in st.ended /\ st.code[k] # 0
Failure(pl, st, k) == SchedFail(pl, k) \/ ExitFail(st, k)
AnyFailure(pl, st) == \E k \in Tasks(pl) : Failure(pl, st, k)

G(pl, k) == pl.gidx[k[1]][k[2]]
\* k is strictly before group g of command c
Before(pl, k, c, g) == k[1] < c \/ (k[1] = c /\ G(pl, k) < g)
FailureBefore(pl, st, c, g) == \E k \in Tasks(pl) : Before(pl, k, c, g) /\ Failure(pl, st, k)
SameGroupFailure(pl, st, k) ==
  \E j \in Tasks(pl) : j # k /\ j[1] = k[1] /\ G(pl, j) = G(pl, k) /\ Failure(pl, st, j)

(* Why a start of <<c,t>> is not allowed in state st ("" = allowed).  Each    *)
(* reason is tagged with the property it belongs to.  The rules that do not   *)
(* need the grouping (useG = FALSE) can be evaluated even when the result     *)
(* document of a recorded run is unusable.                                    *)
StartWhyG(pl, st, c, t, useG) ==
  LET k == <<c, t>> IN
  IF k \notin Tasks(pl) THEN "C05:started a task that is not part of the plan"
  ELSE IF pl.kind[k] # "def" THEN "C05:started a task whose target does not define an executable command"
  ELSE IF k \in st.started THEN "C05:task started twice"
  ELSE IF pl.mode = "graph" /\ \E u \in pl.req : <<t, u>> \in pl.dep /\ pl.kind[<<c, u>>] = "def" /\ <<c, u>> \notin st.ended
       THEN "C04:started before a dependency exited"
  ELSE IF \E j \in st.started : j[1] < c /\ j \notin st.ended
       THEN "C04:started before the previous command finished"
  \* ... which includes executables of an earlier command that have not even started yet (commands out of order)
  ELSE IF /\ \E j \in Tasks(pl) : j[1] < c /\ pl.kind[j] = "def" /\ j \notin st.ended
          /\ ~\E j \in Tasks(pl) : j[1] < c /\ Failure(pl, st, j)
       THEN "C04:started before an earlier command ran"
  ELSE IF pl.mode = "serial" /\ st.started # st.ended THEN "C05:explicit targets not run one at a time"
  ELSE IF ~useG THEN
       \* without the grouping: a failure in an earlier command, or of a (transitive) dependency, is still decisive
       IF \E j \in Tasks(pl) : j[1] < c /\ Failure(pl, st, j) THEN "C06:started after an earlier group or command failed"
       ELSE ""
  ELSE IF \E j \in st.started : j[1] = c /\ G(pl, j) < G(pl, k) /\ j \notin st.ended
       THEN "C04:started before an earlier group finished"
  ELSE IF FailureBefore(pl, st, c, G(pl, k)) THEN "C06:started after an earlier group or command failed"
  ELSE ""
StartWhy(pl, st, c, t) == StartWhyG(pl, st, c, t, TRUE)
StartOK(pl, st, c, t) == StartWhy(pl, st, c, t) = ""
ApplyStart(st, k) == [st EXCEPT !.started = @ \cup {k}]

EndOK(st, k) == k \in st.started /\ k \notin st.ended
ApplyEnd(st, k, code) == [st EXCEPT !.ended = @ \cup {k}, !.code = (k :> code) @@ @]

(* The result document: doc[k] = [status, code] (code = -1 when absent),      *)
(* failed flag, process exit status.                                          *)
Statuses == {"success", "error", "undefined", "not_executable", "skipped"}
FinishWhys(pl, st, doc, failed, rc) ==
  LET bad(k) ==
        LET e == doc[k]  kd == pl.kind[k]  fb == FailureBefore(pl, st, k[1], G(pl, k)) IN
        IF e.status \notin Statuses THEN "C06:unknown status"
        ELSE IF e.status = "success" /\ ~(k \in st.ended /\ st.code[k] = 0) THEN "C06:success reported for a process that did not exit 0"
        ELSE IF e.status = "error" /\ e.code # -1 /\ ~(k \in st.ended /\ st.code[k] = e.code /\ e.code # 0)
             THEN "C06:error code differs from the process exit code"
        ELSE IF e.status = "error" /\ e.code = -1 /\ k \notin st.started THEN "C06:error reported for a process that never ran"
        ELSE IF e.status = "undefined" /\ ~(kd = "undef" /\ k \notin st.started) THEN "C06:undefined reported wrongly"
        ELSE IF e.status = "not_executable" /\ ~(kd = "noexec" /\ k \notin st.started) THEN "C06:not_executable reported wrongly"
        ELSE IF e.status = "skipped" /\ k \in st.started THEN "C06:skipped reported for a process that ran"
        ELSE IF ExitFail(st, k) /\ e.status # "error" THEN "C06:non-zero exit not reported as error"
        ELSE IF k \in st.ended /\ st.code[k] = 0 /\ ~AnyFailure(pl, st) /\ e.status # "success" THEN "C06:clean exit not reported as success"
        ELSE IF kd = "def" /\ fb /\ e.status # "skipped" THEN "C06:task after a failure not reported as skipped"
        ELSE IF kd = "def" /\ ~fb /\ ~SameGroupFailure(pl, st, k) /\ k \notin st.started
             THEN "C05:planned task with a defined command never started although nothing failed before it"
        ELSE IF kd = "undef" /\ ~pl.fou /\ ~AnyFailure(pl, st) /\ e.status # "undefined" THEN "C06:undefined command not reported as undefined"
        ELSE ""
      \* coverage is judged on its own, whatever the entry claims: a planned pair with a defined command that nothing
      \* kept from running must have run (C05), also when its entry says `undefined` or `skipped` (C06 as well)
      uncovered(k) ==
        IF pl.kind[k] = "def" /\ ~FailureBefore(pl, st, k[1], G(pl, k)) /\ ~SameGroupFailure(pl, st, k) /\ k \notin st.started
        THEN "C05:planned task with a defined command never started although nothing failed before it" ELSE ""
      S == ({ bad(k) : k \in Tasks(pl) } \cup { uncovered(k) : k \in Tasks(pl) }) \ {""}
  IN IF S # {} THEN S
     ELSE IF failed # AnyFailure(pl, st) THEN {"C06:failed flag does not match what happened"}
     ELSE IF rc # (IF failed THEN 1 ELSE 0) THEN {"C06:exit status does not match failed flag"}
     ELSE {}
FinishWhy(pl, st, doc, failed, rc) == LET W == FinishWhys(pl, st, doc, failed, rc) IN IF W = {} THEN "" ELSE CHOOSE w \in W : TRUE
(* The part of the above that needs neither the grouping nor a complete      *)
(* document: is ONE listed entry truthful about its own process?  Used when  *)
(* the result document is mis-shaped (a pair missing or listed twice), so    *)
(* that a lie about a process is still reported as what it is (C06).         *)
EntryWhy(pl, st, k, e) ==
  LET kd == pl.kind[k] IN
  IF e.status \notin Statuses THEN "C06:unknown status"
  ELSE IF e.status = "success" /\ ~(k \in st.ended /\ st.code[k] = 0) THEN "C06:success reported for a process that did not exit 0"
  ELSE IF e.status = "error" /\ e.code # -1 /\ ~(k \in st.ended /\ st.code[k] = e.code /\ e.code # 0)
       THEN "C06:error code differs from the process exit code"
  ELSE IF e.status = "error" /\ e.code = -1 /\ k \notin st.started THEN "C06:error reported for a process that never ran"
  ELSE IF e.status = "undefined" /\ ~(kd = "undef" /\ k \notin st.started) THEN "C06:undefined reported wrongly"
  ELSE IF e.status = "not_executable" /\ ~(kd = "noexec" /\ k \notin st.started) THEN "C06:not_executable reported wrongly"
  ELSE IF e.status = "skipped" /\ k \in st.started THEN "C06:skipped reported for a process that ran"
  ELSE IF ExitFail(st, k) /\ e.status # "error" THEN "C06:non-zero exit not reported as error"
  ELSE ""
FinishOK(pl, st, doc, failed, rc) == FinishWhys(pl, st, doc, failed, rc) = {}
=============================================================================
