-------------------------------- MODULE Store --------------------------------
(* The out directory as `monorail run` mutates it: run slots 1..N, the run     *)
(* pointer (tracking/run.json) and, per invocation, the sequence of atomic     *)
(* filesystem effects app/run.rs performs.  Properties C12 (latest-run         *)
(* addressing, bounded retention) and C13 (a crash at any point between two    *)
(* effects never damages previously recorded state).                           *)
(*                                                                             *)
(* st = [ptr, slot, last]                                                      *)
(*   ptr   0 = no pointer file, -1 = pointer file unparsable (truncated),      *)
(*         k in 1..N = names slot k                                            *)
(*   slot  [1..N -> [run, stage]] stage: "absent" | "dir" | "logs" | "result"  *)
(*   last  ghost: number of the most recent COMPLETED run (0 = none)           *)
EXTENDS Integers, Sequences, FiniteSets

Absent == [run |-> 0, stage |-> "absent"]
Store0(N) == [ptr |-> 0, slot |-> [k \in 1..N |-> Absent], last |-> 0]

\* which slot the next invocation uses (get_next_tracking_run); the invocation fails outright
\* when the pointer file exists but cannot be parsed
CanStart(st) == st.ptr # -1
NextSlot(st, N) == IF st.ptr <= 0 \/ st.ptr >= N THEN 1 ELSE st.ptr + 1

(* The effects of one invocation, in order.  A crash may fall between any two *)
(* (and an invocation that aborts before execution - unknown sequence, graph   *)
(* cycle - stops after "mkdir": RunWipesSlotBeforeValidation).                 *)
(* With AtomicPointer the pointer is replaced in one step (write a temporary   *)
(* file, rename); without it the code first truncates and then writes.         *)
Effects(atomicPointer) ==
  <<"wipe", "mkdir", "logs", "result">> \o (IF atomicPointer THEN <<"ptrwrite">> ELSE <<"ptrtrunc", "ptrwrite">>)

Apply(st, e, k, r) ==
  CASE e = "wipe"     -> [st EXCEPT !.slot[k] = Absent]
    [] e = "mkdir"    -> [st EXCEPT !.slot[k] = [run |-> r, stage |-> "dir"]]
    [] e = "logs"     -> [st EXCEPT !.slot[k].stage = "logs"]
    [] e = "result"   -> [st EXCEPT !.slot[k].stage = "result"]
    [] e = "ptrtrunc" -> [st EXCEPT !.ptr = -1]
    [] e = "ptrwrite" -> [st EXCEPT !.ptr = k, !.last = r]

RECURSIVE ApplyPrefix(_, _, _, _, _)
ApplyPrefix(st, effs, n, k, r) ==
  IF n = 0 \/ effs = <<>> THEN st ELSE ApplyPrefix(Apply(st, Head(effs), k, r), Tail(effs), n - 1, k, r)

\* `out delete --all` removes tracking/ and run/: no pointer, no slots, no completed run
OutDeleteAll(st, N) == Store0(N)

\* ---- what a user can observe between invocations (and, for readers that take no lock, during one)
ResultShows(st, N) == IF st.ptr \in 1..N /\ st.slot[st.ptr].stage = "result" THEN st.slot[st.ptr].run ELSE 0
LogShowsDefault(st, N) == IF st.ptr \in 1..N /\ st.slot[st.ptr].stage \in {"logs", "result"} THEN st.slot[st.ptr].run ELSE 0

\* ---- properties of a quiescent store
\* the pointer names the latest completed run, whose result is stored
LatestAddressed(st, N) == st.last # 0 => ResultShows(st, N) = st.last /\ LogShowsDefault(st, N) = st.last
\* nothing of an older run is left in a slot: a slot holds at most the run that last used it (by construction of
\* `wipe`), and at most N slots exist (by construction of the domain)
\* the next invocation can start
Startable(st) == CanStart(st)
=============================================================================
