------------------------------ MODULE StoreAges ------------------------------
(* The run store with runs identified by RELATIVE AGE (0 = the most recent      *)
(* invocation, 1 = the one before, ... capped at N + 1 = "older") instead of    *)
(* by absolute run number.  The reachable state space is then finite, so TLC's  *)
(* exhaustive search covers run histories of EVERY length (C12's quantifier:    *)
(* "any sequence of runs ... longer than several multiples of                   *)
(* max_retained_runs"), including crashes between any two effects (C13).        *)
(* Same effect sequence as Store.tla.                                           *)
EXTENDS Integers, FiniteSets, TLC
CONSTANTS N, AtomicPointer
Slots == 1..N
Old == N + 1
VARIABLES ptr,      \* 0 = no pointer, -1 = truncated (unparsable), k = slot id
          slot,     \* [Slots -> [age, stage]]  stage: "absent", "dir", "logs", "result"
          cur,      \* in-flight invocation: Idle or [s |-> slot, pc |-> step]
          last      \* slot of the most recent completed run (0 = none), ghost
vars == <<ptr, slot, cur, last>>
Idle == [s |-> 0, pc |-> "idle"]
Absent == [age |-> Old, stage |-> "absent"]
Init == ptr = 0 /\ slot = [k \in Slots |-> Absent] /\ cur = Idle /\ last = 0
NextId == IF ptr <= 0 \/ ptr >= N THEN 1 ELSE ptr + 1
Bump(a) == IF a >= N THEN Old ELSE a + 1
\* every new invocation makes all earlier ones one step older
Start == /\ cur = Idle /\ ptr # -1
         /\ cur' = [s |-> NextId, pc |-> "wipe"]
         /\ slot' = [k \in Slots |-> IF slot[k].stage = "absent" THEN slot[k] ELSE [slot[k] EXCEPT !.age = Bump(@)]]
         /\ UNCHANGED <<ptr, last>>
Step == /\ cur # Idle
        /\ \/ /\ cur.pc = "wipe"   /\ slot' = [slot EXCEPT ![cur.s] = Absent] /\ cur' = [cur EXCEPT !.pc = "mkdir"] /\ UNCHANGED <<ptr, last>>
           \/ /\ cur.pc = "mkdir"  /\ slot' = [slot EXCEPT ![cur.s] = [age |-> 0, stage |-> "dir"]] /\ cur' = [cur EXCEPT !.pc = "exec"] /\ UNCHANGED <<ptr, last>>
           \/ /\ cur.pc = "exec"   /\ cur' = Idle /\ UNCHANGED <<slot, ptr, last>>     \* aborts before execution (unknown sequence, cycle)
           \/ /\ cur.pc = "exec"   /\ slot' = [slot EXCEPT ![cur.s].stage = "logs"] /\ cur' = [cur EXCEPT !.pc = "result"] /\ UNCHANGED <<ptr, last>>
           \/ /\ cur.pc = "result" /\ slot' = [slot EXCEPT ![cur.s].stage = "result"]
              /\ cur' = [cur EXCEPT !.pc = IF AtomicPointer THEN "ptrwrite" ELSE "ptrtrunc"] /\ UNCHANGED <<ptr, last>>
           \/ /\ cur.pc = "ptrtrunc" /\ ptr' = -1 /\ cur' = [cur EXCEPT !.pc = "ptrwrite"] /\ UNCHANGED <<slot, last>>
           \/ /\ cur.pc = "ptrwrite" /\ ptr' = cur.s /\ last' = cur.s /\ cur' = Idle /\ UNCHANGED slot
Crash == cur # Idle /\ cur' = Idle /\ UNCHANGED <<ptr, slot, last>>
Next == Start \/ Step \/ Crash
Spec == Init /\ [][Next]_vars
Quiescent == cur = Idle
\* C12: the pointer names the latest completed run, whose result is stored
PointerNamesLatestCompleted == (Quiescent /\ last # 0) => (ptr = last /\ slot[last].stage = "result")
\* C13: whatever a later invocation does - also mid-flight - the last completed run stays addressable (N >= 2)
CrashPreserves == (last # 0 /\ N >= 2) => (ptr = last /\ slot[last].stage = "result")
NextRunPossible == Quiescent => ptr # -1
\* retention: slots in use hold pairwise different runs, and a slot with age a < N holding a result is retrievable
DistinctAges == \A j, k \in Slots : (j # k /\ slot[j].stage # "absent" /\ slot[k].stage # "absent" /\ slot[j].age < Old) => slot[j].age # slot[k].age
=============================================================================
