-------------------------------- MODULE Tail --------------------------------
(* The log-stream connection between a `run` and a `log tail` listener, at the *)
(* granularity of flushes (C15, C20).  Every stream of every task flushes its  *)
(* collected lines NFlush times; a stream admitted by the listener's filters   *)
(* owns a clone of the shared connection and writes, under the connection      *)
(* mutex, a header followed by its lines (one block per flush); every flush    *)
(* also goes to the compressor (the stored log).  The listener may die at any  *)
(* moment.                                                                     *)
(*   HoldMutexAcrossBlock = FALSE: header and lines under separate lock holds  *)
(*   DetachOnError = FALSE: what process_bufs did - a failed stream write      *)
(*                          fails the task (status error, flush not stored)    *)
EXTENDS Integers, Sequences, FiniteSets, SequencesExt, TLC
CONSTANTS S, NFlush, Admitted, HoldMutexAcrossBlock, DetachOnError
Streams == 1..S
VARIABLES k,        \* k[i] = number of completed flushes of stream i
          phase,    \* phase[i]: "idle" | "hdr" (header written, lines pending)
          mutex,    \* 0 or the stream holding the connection mutex
          listener, \* "up" | "dead"
          attached, \* attached[i]: stream still has a log-stream client
          conn,     \* what the listener received: <<"h", i, 0>> or <<"l", i, n>>
          file,     \* file[i] = sequence of flush numbers stored by the compressor
          status    \* status[i]: "running" | "ok" | "error"
vars == <<k, phase, mutex, listener, attached, conn, file, status>>

Init == /\ k = [i \in Streams |-> 0] /\ phase = [i \in Streams |-> "idle"] /\ mutex = 0 /\ listener = "up"
        /\ attached = [i \in Streams |-> i \in Admitted] /\ conn = <<>> /\ file = [i \in Streams |-> <<>>]
        /\ status = [i \in Streams |-> "running"]
Store(i) == file' = [file EXCEPT ![i] = Append(@, k[i] + 1)]
Fail(i) == IF DetachOnError THEN /\ attached' = [attached EXCEPT ![i] = FALSE] /\ UNCHANGED status
           ELSE /\ status' = [status EXCEPT ![i] = "error"] /\ UNCHANGED attached
\* a flush by a stream without a client: compressor only
FlushPlain(i) == /\ status[i] = "running" /\ k[i] < NFlush /\ ~attached[i] /\ phase[i] = "idle"
                 /\ Store(i) /\ k' = [k EXCEPT ![i] = @ + 1] /\ UNCHANGED <<phase, mutex, listener, attached, conn, status>>
\* a flush by a stream with a client: take the mutex, write header, (maybe release), write lines, release; then compressor
BeginBlock(i) == /\ status[i] = "running" /\ k[i] < NFlush /\ attached[i] /\ phase[i] = "idle" /\ mutex = 0
                 /\ IF listener = "up"
                    THEN /\ conn' = Append(conn, <<"h", i, 0>>) /\ phase' = [phase EXCEPT ![i] = "hdr"]
                         /\ mutex' = (IF HoldMutexAcrossBlock THEN i ELSE 0) /\ UNCHANGED <<attached, status, file, k>>
                    ELSE /\ Fail(i) /\ (IF DetachOnError THEN Store(i) /\ k' = [k EXCEPT ![i] = @ + 1] ELSE UNCHANGED <<file, k>>)
                         /\ UNCHANGED <<conn, phase, mutex>>
                 /\ UNCHANGED listener
EndBlock(i) == /\ phase[i] = "hdr" /\ (mutex = i \/ (~HoldMutexAcrossBlock /\ mutex = 0))
               /\ IF listener = "up" THEN conn' = Append(conn, <<"l", i, k[i] + 1>>) /\ UNCHANGED <<attached, status>>
                  ELSE UNCHANGED conn /\ Fail(i)
               /\ (IF listener = "up" \/ DetachOnError THEN Store(i) /\ k' = [k EXCEPT ![i] = @ + 1] ELSE UNCHANGED <<file, k>>)
               /\ phase' = [phase EXCEPT ![i] = "idle"] /\ mutex' = 0 /\ UNCHANGED listener
Finish(i) == /\ status[i] = "running" /\ k[i] = NFlush /\ phase[i] = "idle" /\ status' = [status EXCEPT ![i] = "ok"]
             /\ UNCHANGED <<k, phase, mutex, listener, attached, conn, file>>
ListenerDie == listener = "up" /\ listener' = "dead" /\ UNCHANGED <<k, phase, mutex, attached, conn, file, status>>
Next == ListenerDie \/ \E i \in Streams : FlushPlain(i) \/ BeginBlock(i) \/ EndBlock(i) \/ Finish(i)
Spec == Init /\ [][Next]_vars /\ WF_vars(\E i \in Streams : FlushPlain(i) \/ BeginBlock(i) \/ EndBlock(i) \/ Finish(i))

\* ---- C20
\* every lines item directly follows a header or lines item of the same stream (block integrity)
WellFormed == \A j \in 1..Len(conn) : conn[j][1] = "l" => j > 1 /\ conn[j - 1][2] = conn[j][2]
LinesOf(i) == SelectSeq(conn, LAMBDA x : x[1] = "l" /\ x[2] = i)
\* per-stream concatenation of the blocks is a prefix of the stored log, equal when the listener never died
Reassemble == \A i \in Streams : LET ls == [j \in 1..Len(LinesOf(i)) |-> LinesOf(i)[j][3]] IN
                 /\ IsPrefix(ls, file[i])
                 /\ (status[i] = "ok" /\ listener = "up" /\ i \in Admitted) => ls = file[i]
Filters == \A j \in 1..Len(conn) : conn[j][2] \in Admitted
\* ---- C15: the outcome never depends on the listener
NonInterference == \A i \in Streams : status[i] # "error" /\ (status[i] = "ok" => file[i] = [j \in 1..NFlush |-> j])
AllFinish == <>(\A i \in Streams : status[i] = "ok")
=============================================================================
