------------------------------ MODULE Targets ------------------------------
(* Configuration semantics of monorail: which targets a change path affects *)
(* (property C01) and which target depends on which (property C10).         *)
(*                                                                          *)
(* A configuration is a record [targets |-> <<t1, ..., tn>>] where each ti  *)
(* is [path |-> P, uses |-> <<P...>>, ignores |-> <<P...>>] and P is a path *)
(* (sequence of components).  Declaration order is deliberately invisible:  *)
(* every operator goes through RangeOf.                                     *)
EXTENDS Paths, FiniteSets

Tgts(c)   == RangeOf(c.targets)
TPaths(c) == { t.path : t \in Tgts(c) }

Ign(t, p)      == \E i \in RangeOf(t.ignores) : Inside(p, i)
InDir(t, p)    == Inside(p, t.path)
UsesHit(t, p)  == { u \in RangeOf(t.uses) : Inside(p, u) }
NestedIn(o, t) == StrictInside(o.path, t.path)

(* The documented don't-care of C01: a `uses` entry that names a target     *)
(* which itself ignores the changed path.  Lo: such an entry contributes    *)
(* nothing.  Hi: it contributes like any other entry.                       *)
DontCare(c, u, p) == \E m \in Tgts(c) : m.path = u /\ Ign(m, p)
UsesLo(c, t, p)   == \E u \in UsesHit(t, p) : ~DontCare(c, u, p)
UsesHi(c, t, p)   == UsesHit(t, p) # {}

(* targets that are hit through one of their own `uses` entries and do not  *)
(* ignore the path; computed once per path                                  *)
ViaUsesLo(c, p) == { o \in Tgts(c) : ~Ign(o, p) /\ UsesLo(c, o, p) }
ViaUsesHi(c, p) == { o \in Tgts(c) : ~Ign(o, p) /\ UsesHi(c, o, p) }

AffBy(t, p, via) == /\ ~Ign(t, p)
                    /\ \/ InDir(t, p)
                       \/ \E o \in via : o = t \/ NestedIn(o, t)

(* per-path reading of "a target nested in it that is itself affected"      *)
AffLoPath(c, p) == LET via == ViaUsesLo(c, p) IN { t \in Tgts(c) : AffBy(t, p, via) }
AffHiPath(c, p) == LET via == ViaUsesHi(c, p) IN { t \in Tgts(c) : AffBy(t, p, via) }

AffectedLo(c, ps) == { t.path : t \in UNION { AffLoPath(c, p) : p \in ps } }

(* Upper bound: additionally reads "itself affected" as "affected by any    *)
(* path of the change set" (least fixpoint).                                *)
RECURSIVE HiFix(_, _, _, _)
HiFix(c, ps, X, n) ==
  LET more == { t \in Tgts(c) :
                  \E p \in ps : /\ ~Ign(t, p)
                                /\ \E o \in X : NestedIn(o, t) /\ UsesHi(c, o, p) }
      Y == X \cup more
  IN IF n = 0 \/ Y = X THEN X ELSE HiFix(c, ps, Y, n - 1)
AffectedHi(c, ps) ==
  LET base == UNION { AffHiPath(c, p) : p \in ps }
  IN { t.path : t \in HiFix(c, ps, base, Cardinality(Tgts(c))) }

(* ------------------------------ C10 ------------------------------------ *)
DependsOn(t, u) == /\ t.path # u.path
                   /\ \/ Inside(t.path, u.path)
                      \/ \E x \in RangeOf(t.uses) : Inside(x, u.path)

\* the dependency relation as a set of <<path, path>> pairs
DepPairs(c) == { <<t.path, u.path>> : <<t, u>> \in { tu \in Tgts(c) \X Tgts(c) : DependsOn(tu[1], tu[2]) } }

\* adjacency as a function path -> set of paths it depends on
DepAdj(c) == [ tp \in TPaths(c) |-> { d[2] : d \in { e \in DepPairs(c) : e[1] = tp } } ]
=============================================================================
