------------------------------ MODULE StoreInd ------------------------------
(* Inductive-invariant check (Apalache) for the run store with the atomic      *)
(* pointer: unlike TLC's bounded / relative-age exploration this argues for    *)
(* every reachable state of StoreAges-like histories without enumerating them. *)
(* Ages are dropped (they only matter for retention); the state is the pointer,*)
(* the stage of every slot, the in-flight invocation and the ghost `last`.     *)
EXTENDS Integers
CONSTANT
  \* @type: Int;
  N
VARIABLES
  \* @type: Int;
  ptr,
  \* @type: Int -> Str;
  stage,
  \* @type: { s: Int, pc: Str };
  cur,
  \* @type: Int;
  last

ConstInit == N \in 2..5
MaxN == 5
AllSlots == 1..5                      \* Apalache wants constant ranges as function domains
Slots == { k \in AllSlots : k <= N }
Stages == {"absent", "dir", "logs", "result"}
Pcs == {"idle", "wipe", "mkdir", "exec", "result", "ptrwrite"}
Idle == [s |-> 0, pc |-> "idle"]
NextId == IF ptr <= 0 \/ ptr >= N THEN 1 ELSE ptr + 1

Init == ptr = 0 /\ stage = [k \in AllSlots |-> "absent"] /\ cur = Idle /\ last = 0
Start == /\ cur = Idle /\ cur' = [s |-> NextId, pc |-> "wipe"] /\ UNCHANGED <<ptr, stage, last>>
Step == /\ cur.pc # "idle"
        /\ \/ /\ cur.pc = "wipe"   /\ stage' = [stage EXCEPT ![cur.s] = "absent"] /\ cur' = [cur EXCEPT !.pc = "mkdir"] /\ UNCHANGED <<ptr, last>>
           \/ /\ cur.pc = "mkdir"  /\ stage' = [stage EXCEPT ![cur.s] = "dir"] /\ cur' = [cur EXCEPT !.pc = "exec"] /\ UNCHANGED <<ptr, last>>
           \/ /\ cur.pc = "exec"   /\ cur' = Idle /\ UNCHANGED <<stage, ptr, last>>
           \/ /\ cur.pc = "exec"   /\ stage' = [stage EXCEPT ![cur.s] = "logs"] /\ cur' = [cur EXCEPT !.pc = "result"] /\ UNCHANGED <<ptr, last>>
           \/ /\ cur.pc = "result" /\ stage' = [stage EXCEPT ![cur.s] = "result"] /\ cur' = [cur EXCEPT !.pc = "ptrwrite"] /\ UNCHANGED <<ptr, last>>
           \/ /\ cur.pc = "ptrwrite" /\ ptr' = cur.s /\ last' = cur.s /\ cur' = Idle /\ UNCHANGED stage
Crash == cur.pc # "idle" /\ cur' = Idle /\ UNCHANGED <<ptr, stage, last>>
Next == Start \/ Step \/ Crash

\* ---- the properties (C12 / C13 on the design)
PointerNamesLatestCompleted == last # 0 => (ptr = last /\ stage[last] = "result")

\* ---- inductive invariant
TypeOK == /\ ptr \in 0..N /\ last \in 0..N
          /\ stage \in [AllSlots -> Stages]
          /\ cur.pc \in Pcs /\ cur.s \in 0..N
IndInv == /\ TypeOK
          /\ ptr = last
          /\ (cur.pc = "idle") = (cur.s = 0)
          /\ cur.pc # "idle" => (cur.s \in Slots /\ cur.s # last)
          /\ last # 0 => stage[last] = "result"
          /\ cur.pc = "exec" => stage[cur.s] = "dir"
          /\ cur.pc = "result" => stage[cur.s] = "logs"
          /\ cur.pc = "ptrwrite" => stage[cur.s] = "result"
\* an arbitrary state satisfying the invariant (assignments first, then the constraint)
IndInit == /\ ptr \in 0..5 /\ last \in 0..5
           /\ stage \in [AllSlots -> Stages]
           /\ cur \in [s : 0..5, pc : Pcs]
           /\ IndInv
=============================================================================
