----------------------------- MODULE LogScripts -----------------------------
(* Chunk scripts shared by the bounded log-pipeline model and the case enumeration. *)
\* chunk scripts over the alphabet {x, y, NL}: no NL then NL-terminated; NL in the middle with unterminated
\* tail; one byte at a time; single complete line; unterminated only
MCScripts == { << <<"x","y">>, <<"x","n">> >>,
               << <<"x","n","y">> >>,
               << <<"x">>, <<"n">>, <<"y">> >>,
               << <<"x","n">> >>,
               << <<"y">> >> }
=============================================================================
