------------------------------- MODULE MCArgv -------------------------------
(* Enumeration of argument-assembly cases for C11 (initial states only): per  *)
(* run one or two targets with independent argmap files, so that leaking of   *)
(* arguments across targets, commands or files is visible.                    *)
EXTENDS Plan, TLC, Json
CONSTANTS EmitCases, Shard, NShards
Maps == {"m1", "m2", "nofile"}
BaseKinds == {"absent", "other_cmd", "one", "two"}
NamedKinds == {"absent", "other_cmd", "one", "two"}
VARIABLES base1, base2, n11, n12, n21, n22, requested, args, nobase, resolve, customdirs, shareddir, twocmds, deps
vars == <<base1, base2, n11, n12, n21, n22, requested, args, nobase, resolve, customdirs, shareddir, twocmds, deps>>
ReqSeqs == {<<>>} \cup { <<a>> : a \in Maps } \cup { <<a, b>> : a \in Maps, b \in Maps }
Init == /\ base1 \in BaseKinds /\ base2 \in {"absent", "one"}
        /\ n11 \in NamedKinds /\ n12 \in {"absent", "one"}
        /\ n21 \in {"absent", "two"} /\ n22 \in {"absent", "one"}
        /\ requested \in ReqSeqs
        /\ args \in {"none", "two"}
        /\ nobase \in BOOLEAN
        \* defpath_missing: a definition path is configured but no such file exists (a file with the command's stem does)
        /\ resolve \in {"stem", "defpath", "def_nopath", "defpath_missing"}
        /\ customdirs \in BOOLEAN
        \* both targets resolve commands in ONE shared directory (only meaningful with custom directories)
        /\ shareddir \in BOOLEAN /\ (shareddir => customdirs)
        /\ twocmds \in BOOLEAN
        /\ (args = "two" => ~twocmds)
        \* the run names only the first target and --deps pulls the second one in (the first uses it)
        /\ deps \in BOOLEAN /\ (deps => args = "none" /\ ~twocmds)
        \* keep the enumeration tractable: the second target only varies when the first is interesting
        /\ (base1 = "absent" => base2 = "absent")
        /\ (n11 = "absent" => n12 = "absent")
Next == UNCHANGED vars
Spec == Init /\ [][Next]_vars
Weight == Len(requested) + (IF nobase THEN 1 ELSE 0) + (IF customdirs THEN 2 ELSE 0) + (IF twocmds THEN 3 ELSE 0)
Emit == (EmitCases /\ Weight % NShards = Shard) =>
  PrintT(<<"CASE", ToJson([base1 |-> base1, base2 |-> base2, n11 |-> n11, n12 |-> n12, n21 |-> n21, n22 |-> n22,
                           requested |-> requested, args |-> args, nobase |-> nobase, resolve |-> resolve,
                           customdirs |-> customdirs, shareddir |-> shareddir, twocmds |-> twocmds, deps |-> deps])>>)
\* law: dropping the base argmap removes exactly a prefix
BaseIsPrefix == \A b \in {<<>>, <<"x">>, <<"x", "y">>} :
                  LET full == Argv(b, {<<"m1", <<"p">>>>}, requested, <<"z">>, FALSE)
                      nb   == Argv(b, {<<"m1", <<"p">>>>}, requested, <<"z">>, TRUE)
                  IN full = b \o nb
\* law (checked once, constant level): over a small universe of definitions and directory files, what `target show
\* --commands` displays for a listed name is what `run` executes for it, except under the Shadowed deviation - where
\* the two differ
SNames == {"build", "test"}
SDefPaths == {<<>>, <<"x", "run">>, <<"d", "build.sh">>}
SFiles == { [path |-> <<"d", "build.sh">>, stem |-> "build"], [path |-> <<"d", "build.py">>, stem |-> "build"],
            [path |-> <<"d", "test.sh">>, stem |-> "test"] }
SDefs == { D \in SUBSET [name : SNames, path : SDefPaths] : \A a, b \in D : a.name = b.name => a = b }
SAllPaths == SDefPaths \cup { f.path : f \in SFiles }
ASSUME ShowAgreesUnlessShadowed ==
  \A D \in SDefs : \A C \in SUBSET SFiles : \A n \in ShownNames(D, C) : \A p \in SAllPaths :
     ShownPathOK(D, C, n, p) =>
        IF Shadowed(D, C, n) THEN ~RunExeOK(D, C, n, p) ELSE RunExeOK(D, C, n, p)
=============================================================================
