----------------------------- MODULE MCChanges -----------------------------
(* Bounded instance of Changes.tla: all histories of write / delete / move /  *)
(* git-mv / stage / stage-all / commit / checkpoint update (any id, with and  *)
(* without pending) / checkpoint delete over a few paths (some git-ignored).  *)
EXTENDS Changes, TLC, Json
CONSTANTS Paths, Ignored, MaxC, MaxCommits, EmitDepth, KeepStalePending
VARIABLES s, last, hist, seen   \* seen[p]: every content p ever had in the working tree or the index (ghost)
vars == <<s, last, hist, seen>>
View == <<s, last, seen>>
Content == 1..MaxC

Init == /\ LET t0 == [p \in Paths |-> IF p \in Ignored THEN 0 ELSE 1] IN
           s = [paths |-> Paths, ignored |-> Ignored, commits |-> <<t0>>, idx |-> t0, wt |-> t0,
                cp |-> [set |-> FALSE, id |-> 0, pend |-> [p \in Paths |-> -1]]]
        /\ last = [a |-> "init"] /\ hist = <<>>
        /\ seen = [p \in Paths |-> IF p \in Ignored THEN {0} ELSE {1}]
Do(s2, rec) == /\ s' = s2 /\ last' = rec /\ hist' = Append(hist, rec)
               /\ seen' = [p \in Paths |-> seen[p] \cup {s2.wt[p], s2.idx[p]}]   \* staged content counts as content the path had

DoWrite(p, c)  == s.wt[p] # c /\ Do(Write(s, p, c), [a |-> "write", p |-> p, c |-> c])
DoDelete(p)    == s.wt[p] # 0 /\ Do(Delete(s, p), [a |-> "delete", p |-> p])
DoMove(p, q)   == /\ p # q /\ s.wt[p] # 0 /\ s.wt[q] = 0 /\ (p \in Ignored <=> q \in Ignored)
                  /\ Do(Move(s, p, q), [a |-> "move", p |-> p, q |-> q])
DoGitMv(p, q)  == /\ p # q /\ s.wt[p] # 0 /\ s.wt[q] = 0 /\ s.idx[p] # 0 /\ s.idx[q] = 0
                  /\ p \notin Ignored /\ q \notin Ignored
                  /\ Do(GitMv(s, p, q), [a |-> "gitmv", p |-> p, q |-> q])
DoStage(p)     == p \notin Ignored /\ s.idx[p] # s.wt[p] /\ Do(Stage(s, p), [a |-> "stage", p |-> p])
DoStageAll     == StageAll(s).idx # s.idx /\ Do(StageAll(s), [a |-> "stage_all"])
DoCommit       == s.idx # HeadTree(s) /\ Len(s.commits) < MaxCommits /\ Do(Commit(s), [a |-> "commit"])
DoCpUpdate(id, pending) == /\ id \in 0..Len(s.commits)
                           /\ Do(CpUpdateK(s, id, pending, KeepStalePending), [a |-> "cp_update", id |-> id, pending |-> pending])
DoCpDelete     == s.cp.set /\ Do(CpDelete(s), [a |-> "cp_delete"])

Next == \/ \E p \in Paths, c \in Content : DoWrite(p, c)
        \/ \E p \in Paths : DoDelete(p) \/ DoStage(p)
        \/ \E p, q \in Paths : DoMove(p, q) \/ DoGitMv(p, q)
        \/ DoStageAll \/ DoCommit \/ DoCpDelete
        \/ \E id \in 0..MaxCommits, b \in BOOLEAN : DoCpUpdate(id, b)
Spec == Init /\ [][Next]_vars

\* ---- design-level obligations
\* what git.rs computes is what C02 states, for every begin/end choice
GitMatchesSpec ==
  s.cp.set => \A b \in 0..Len(s.commits), e \in 0..Len(s.commits) :
                 ChangeSetGit(s, b, e) = ChangeSet(s, b, e)
\* C07: right after `checkpoint update --pending` (HEAD) nothing is changed
FixpointC07 == (last.a = "cp_update" /\ last.pending /\ last.id = 0) => ChangeSet(s, 0, 0) = {}
\* C07 re-flag: an edit to content never seen, a deletion of a committed path or a creation
\* re-flags exactly that path (relative to the clean state right after an update -p)
TypeOK == /\ s.cp.set => s.cp.id \in 1..Len(s.commits)
          /\ \A p \in Ignored : s.idx[p] = 0
NeverHad(p, c) == c \notin seen[p]
ReflagC07 == [][ (last.a = "cp_update" /\ last.pending /\ last.id = 0 /\ last'.a \in {"write", "delete"})
                   => LET p == last'.p IN
                      /\ ChangeSet(s', 0, 0) \subseteq {p}
                      /\ (last'.a = "write" /\ p \notin Ignored /\ NeverHad(p, last'.c)) => p \in ChangeSet(s', 0, 0)
                      /\ (last'.a = "delete" /\ s.commits[s.cp.id][p] # 0) => p \in ChangeSet(s', 0, 0) ]_vars

Emit == (EmitDepth > 0 /\ Len(hist) = EmitDepth) => PrintT(<<"BEH", ToJson([hist |-> hist])>>)
=============================================================================
