---------------------------- MODULE MCConfigFile ----------------------------
EXTENDS ConfigFile, TLC, Json, Sequences
CONSTANTS Regions, HashWholeFile, MaxV, EmitDepth
VARIABLES c, last, effects, hist
vars == <<c, last, effects, hist>>
View == <<c, last, effects>>
Init == c = Cfg0 /\ last = "init" /\ effects = 0 /\ hist = <<>>
DoGenerate == c' = Generate(c) /\ last' = "generate" /\ hist' = Append(hist, [a |-> "generate"]) /\ UNCHANGED effects
DoEdit == c.src.v < MaxV /\ c' = EditSource(c) /\ last' = "edit_source" /\ hist' = Append(hist, [a |-> "edit_source"]) /\ UNCHANGED effects
DoTamper(f, r) == c.generated /\ c' = Tamper(c, f, r) /\ c' # c /\ last' = "tamper" /\ hist' = Append(hist, [a |-> "tamper", file |-> f, region |-> r]) /\ UNCHANGED effects
DoRestore(f, r) == c' = Restore(c, f, r) /\ c' # c /\ last' = "restore" /\ hist' = Append(hist, [a |-> "restore", file |-> f, region |-> r]) /\ UNCHANGED effects
\* an API that reads the configuration acts only if the integrity check accepts
UseApi == /\ c.generated /\ effects' = (IF Accepts(c, HashWholeFile) THEN 1 ELSE 0)
          /\ last' = (IF Accepts(c, HashWholeFile) THEN "api_ok" ELSE "api_err") /\ hist' = Append(hist, [a |-> "use_api"]) /\ UNCHANGED c
Next == DoGenerate \/ DoEdit \/ UseApi \/ \E f \in {"src", "gen", "lock"}, r \in Regions : DoTamper(f, r) \/ DoRestore(f, r)
Spec == Init /\ [][Next]_vars
UsableIffUntouched == [][ (last' = "api_ok" => Untouched(c)) /\ (last' = "api_err" => ~Untouched(c)) ]_vars
FailedApiHasNoEffect == [][ last' = "api_err" => effects' = 0 ]_vars
Emit == (EmitDepth > 0 /\ Len(hist) = EmitDepth) => PrintT(<<"BEH", ToJson([hist |-> hist])>>)
=============================================================================
