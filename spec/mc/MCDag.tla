------------------------------- MODULE MCDag -------------------------------
(* Bounded instance for Dag.tla: every digraph without self-loops on N nodes *)
(* and every non-empty root set is one initial state.                        *)
(*  - KahnCorrect: the layering computed the way graph.rs computes it        *)
(*    succeeds iff no cycle is reachable from the roots, and then it is a    *)
(*    ValidLayering of exactly the closure of the roots (C03/C09 on the      *)
(*    design).                                                               *)
(*  - Emit prints one CASE line per state so that the harness can push every *)
(*    (graph, roots) into the real Dag.                                      *)
EXTENDS Dag, TLC, Json
CONSTANT N, EmitCases
Node == 0..(N - 1)
VARIABLES adj, roots
vars == <<adj, roots>>

Init == /\ adj \in [Node -> SUBSET Node]
        /\ \A n \in Node : n \notin adj[n]
        /\ roots \in (SUBSET Node) \ {{}}
Next == UNCHANGED vars
Spec == Init /\ [][Next]_vars

KahnCorrect ==
  LET V == Closure(adj, roots)
      L == Layering(adj, roots)
  IN /\ L.ok <=> ~Cyclic(adj, V)
     /\ L.ok => ValidLayering(adj, V, L.groups)

\* every valid layering places a node strictly after the longest dependency chain below it;
\* Kahn's is the one that places every node as LATE as its dependents allow
LatestPlacement ==
  LET V == Closure(adj, roots)
      L == Layering(adj, roots)
  IN L.ok => \A i \in DOMAIN L.groups : \A n \in L.groups[i] :
                \/ i = Len(L.groups)
                \/ \E m \in L.groups[i + 1] : n \in adj[m]

Emit == EmitCases =>
  PrintT(<<"CASE", ToJson([adj |-> [i \in 1..N |-> adj[i - 1]], roots |-> roots])>>)
=============================================================================
