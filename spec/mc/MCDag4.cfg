CONSTANTS N = 4
 EmitCases = FALSE
SPECIFICATION Spec
INVARIANTS KahnCorrect LatestPlacement Emit
CHECK_DEADLOCK FALSE
