----------------------------- MODULE MCLogCases -----------------------------
(* Enumeration of single-stream capture cases for the conformance harness: a  *)
(* chunk script and, for every gap (before the first chunk, between chunks,   *)
(* between the last chunk and the close), the number of flush ticks that fall *)
(* into it.  Each case is an interleaving class of ChildWrite / Tick / Eof of *)
(* Logs.tla for one stream; the harness turns the tick counts into virtual    *)
(* delays and combines several streams into one group.                        *)
EXTENDS Naturals, Sequences, TLC, Json, LogScripts
CONSTANTS MaxGapTicks
VARIABLES sc, gaps
lvars == <<sc, gaps>>
MoreScripts == MCScripts \cup { << <<"x","y","n","x","y","n">>, <<"x">> >>, << <<"n">>, <<"n","x">> >>, <<>> }
LInit == /\ sc \in MoreScripts
         /\ gaps \in [1..(Len(sc) + 1) -> 0..MaxGapTicks]
LNext == UNCHANGED lvars
LSpec == LInit /\ [][LNext]_lvars
LEmit == PrintT(<<"CASE", ToJson([chunks |-> sc, gaps |-> gaps])>>)
=============================================================================
