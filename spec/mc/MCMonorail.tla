----------------------------- MODULE MCMonorail -----------------------------
EXTENDS Monorail
MCCfg == [targets |-> << [path |-> <<"a">>, uses |-> <<>>, ignores |-> <<>>],
                         [path |-> <<"b">>, uses |-> << <<"a", "f">> >>, ignores |-> <<>>] >>]
MCComp == [p \in {"af", "bf"} |-> IF p = "af" THEN <<"a", "f">> ELSE <<"b", "f">>]
=============================================================================
