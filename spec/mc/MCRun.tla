-------------------------------- MODULE MCRun --------------------------------
(* Bounded instances of RunImpl: every plan over NT targets (every DAG with    *)
(* edges j -> i for i < j, groups computed by Dag!Layering), NC commands, every *)
(* assignment of kinds from Kinds to the tasks, fail-on-undefined from Fous;    *)
(* optionally the serial (-t) plans.                                            *)
EXTENDS RunImpl, Json
CONSTANTS NT, NC, Kinds, Fous, WithSerial, EmitBehaviours

D == INSTANCE Dag
T == 1..NT
EdgeUniverse == { e \in T \X T : e[2] < e[1] }        \* <<t, u>>: t depends on u
AdjOf(dep) == [ t \in T |-> { e[2] : e \in { x \in dep : x[1] = t } } ]
GraphPlans ==
  { [ncmd |-> NC, req |-> T, dep |-> dep, kind |-> kind, fou |-> f, mode |-> "graph",
     groups |-> D!Layering(AdjOf(dep), T).groups] :
       dep \in SUBSET EdgeUniverse, kind \in [(1..NC) \X T -> Kinds], f \in Fous }
\* -t without --deps: one target per group, in any order (the code iterates a hash set)
Perms == { s \in [1..NT -> T] : \A i, j \in 1..NT : i # j => s[i] # s[j] }
SerialPlans ==
  { [ncmd |-> NC, req |-> T, dep |-> {}, kind |-> kind, fou |-> f, mode |-> "serial",
     groups |-> [i \in 1..NT |-> {s[i]}]] :
       s \in Perms, kind \in [(1..NC) \X T -> Kinds], f \in Fous }
MCPlanSet == GraphPlans \cup (IF WithSerial THEN SerialPlans ELSE {})

Emit == (EmitBehaviours /\ phase = "done") =>
  PrintT(<<"BEH", ToJson([nt |-> NT, ncmd |-> plan.ncmd, dep |-> plan.dep, fou |-> plan.fou, mode |-> plan.mode,
                          groups |-> plan.groups,
                          kinds |-> { <<k[1], k[2], plan.kind[k]>> : k \in Task },
                          exits |-> hist, failed |-> failed, rc |-> exitcode])>>)
=============================================================================
