----------------------------- MODULE MCSession -----------------------------
(* Behaviours of the composed specification (Monorail.tla) for replay on the   *)
(* real system: every step is logged with the abstract state it leads to, so   *)
(* that a driver can step real processes through the same actions (holding     *)
(* each at the hook point that bounds the action) and compare the projected    *)
(* state after every step.                                                     *)
(*                                                                             *)
(* Grain: the guarded build has no hook between the moment `checkpoint update` *)
(* has read the repository and the truncation of the checkpoint file, so the   *)
(* replayed relation takes CpRead and CpTruncate as ONE step (CpReadTruncate,  *)
(* their composition); the exhaustive check of Monorail.tla keeps them apart.  *)
EXTENDS Monorail, Json
CONSTANTS EmitDepth, MaxCrashes, ScriptId
VARIABLES hist, ncrash
svars == <<vars, hist, ncrash>>

MCCfg == [targets |-> << [path |-> <<"a">>, uses |-> <<>>, ignores |-> <<>>],
                         [path |-> <<"b">>, uses |-> << <<"a", "f">> >>, ignores |-> <<>>],
                         [path |-> <<"c">>, uses |-> <<>>, ignores |-> <<>>] >>]
MCComp == [p \in {"af", "bf", "cf"} |-> CASE p = "af" -> <<"a", "f">> [] p = "bf" -> <<"b", "f">> [] OTHER -> <<"c", "f">>]

CpReadTruncate(p) ==
  /\ inv[p].pc = "held" /\ inv[p].api = "cp_update"
  /\ IF cpfile = "ok"
     THEN /\ inv' = [inv EXCEPT ![p] = [@ EXCEPT !.pc = "cpwrite", !.ncp = CpUpdate(repo, 0, TRUE).cp]]
          /\ cpfile' = "torn" /\ UNCHANGED holder
     ELSE Done(p) /\ UNCHANGED cpfile
  /\ actor' = p /\ UNCHANGED <<repo, store, nruns, nedits, obs>>

Post == [store |-> store', cpfile |-> cpfile', cp |-> repo'.cp, holder |-> holder', obs |-> obs',
         pcs |-> [p \in Procs |-> inv'[p].pc], wt |-> repo'.wt, ncommits |-> Len(repo'.commits),
         affected |-> AffectedNow']
(* Directed prefixes: behaviours may be made to begin with a scripted sequence of actions (then continue at      *)
(* random), so that situations a uniform walk rarely reaches are replayed in every run of the checks.              *)
S(a, p, api) == [a |-> a, p |-> p, api |-> api]
FullRun(p) == << S("Start", p, "run"), S("TryLock", p, ""), S("RunChoose", p, ""), S("RunEffect", p, ""), S("RunEffect", p, ""),
                 S("RunReadRepo", p, ""), S("RunEffect", p, ""), S("RunEffect", p, ""), S("RunEffect", p, ""), S("Finish", p, "") >>
FullCpUpdate(p) == << S("Start", p, "cp_update"), S("TryLock", p, ""), S("CpReadTruncate", p, ""), S("CpWrite", p, ""), S("Finish", p, "") >>
Show(p) == << S("Start", p, "result_show"), S("ResultShow", p, "") >>
Ana(p) == << S("Start", p, "analyze"), S("Analyze", p, "") >>
CpS(p) == << S("Start", p, "cp_show"), S("CpShow", p, "") >>
Script ==
  CASE ScriptId = 1 -> \* a run right after a checkpoint update with nothing changed (covers no target), then readers
         CpS(2) \o FullCpUpdate(1) \o CpS(2) \o FullRun(1) \o Show(2) \o Ana(2) \o FullRun(2) \o Show(1) \o CpS(1)
    [] ScriptId = 2 -> \* completed run, a run killed after its result was stored but before the pointer moved, readers, next run
         FullRun(1) \o SubSeq(FullRun(1), 1, 8) \o << S("Crash", 1, "") >> \o Show(2) \o FullRun(2) \o Show(1) \o FullRun(1) \o Show(2)
    [] ScriptId = 3 -> \* checkpoint update killed inside its rewrite window; what analyze, run, checkpoint delete and out delete do then
         << S("EnvEdit", 0, "") >> \o SubSeq(FullCpUpdate(1), 1, 3) \o << S("Crash", 1, "") >> \o Ana(2) \o CpS(2)
           \o SubSeq(FullRun(1), 1, 6) \o << S("Finish", 1, ""), S("Start", 1, "cp_delete"), S("TryLock", 1, ""), S("CpDelete", 1, ""), S("Finish", 1, "") >> \o Ana(2) \o CpS(2)
           \o << S("Start", 1, "out_delete"), S("TryLock", 1, ""), S("OutDelete", 1, ""), S("Finish", 1, "") >> \o Ana(2) \o CpS(2) \o FullCpUpdate(2) \o Ana(1) \o CpS(1)
    [] ScriptId = 4 -> \* edits and a commit while a run is parked before it reads the repository; contenders meanwhile
         FullCpUpdate(1) \o SubSeq(FullRun(1), 1, 5) \o << S("EnvEdit", 0, "af"), S("Start", 2, "cp_update"), S("TryLock", 2, ""),
              S("EnvEdit", 0, "cf"), S("EnvCommitAll", 0, ""), S("RunReadRepo", 1, "") >> \o Ana(2) \o CpS(2) \o SubSeq(FullRun(1), 7, 10) \o Show(2)
    [] ScriptId = 5 -> \* after a killed run: a run that covers no target (checkpoint just updated), completed; then another such run
                       \* killed after its result was stored but before the pointer moved; readers; the next run
         FullRun(1) \o SubSeq(FullRun(1), 1, 4) \o << S("Crash", 1, "") >> \o FullCpUpdate(2) \o FullRun(2) \o Show(1)
           \o SubSeq(FullRun(1), 1, 8) \o << S("Crash", 1, "") >> \o Show(2) \o FullRun(2) \o Show(1)
    [] OTHER -> << >>
Scripted == Len(hist) < Len(Script)
FollowsScript(a, p, x) == Scripted => LET sc == Script[Len(hist) + 1] IN
                                        a = sc.a /\ p = sc.p /\ ((a = "Start" \/ (a = "EnvEdit" /\ sc.api # "")) => x[1] = sc.api)
Log(a, p, x) == FollowsScript(a, p, x) /\ hist' = Append(hist, [a |-> a, p |-> p, x |-> x, pre |-> [holder |-> holder, canstart |-> CanStart(store), cpfile |-> cpfile],
                                       post |-> Post])

\* simulation weighting only (RandomElement is evaluated afresh for every step TLC generates): starts, edits and
\* crashes are thinned out so that invocations usually run on to their later steps
Thin(k) == Scripted \/ (\A q \in Procs : inv[q] = Idle) \/ RandomElement(1..k) = 1
SInit == Init /\ hist = <<>> /\ ncrash = 0
SNext ==
  \/ /\ UNCHANGED ncrash
     /\ \/ \E p \in Paths, c \in 1..2 : Thin(3) /\ EnvEdit(p, c) /\ Log("EnvEdit", 0, <<p, c>>)
        \/ EnvCommitAll /\ Log("EnvCommitAll", 0, <<>>)
        \/ \E p \in Procs :
             \/ \E api \in Mutating \cup Readers : Thin(IF api = "run" THEN 2 ELSE 4) /\ Start(p, api) /\ Log("Start", p, <<api>>)
             \/ TryLock(p) /\ Log("TryLock", p, <<inv[p].api>>)
             \/ RunChoose(p) /\ Log("RunChoose", p, <<>>)
             \/ RunEffect(p) /\ Log("RunEffect", p, <<Effs[inv[p].e], inv[p].r, inv[p].k>>)
             \/ RunReadRepo(p) /\ Log("RunReadRepo", p, <<inv[p].r>>)
             \/ CpReadTruncate(p) /\ Log("CpReadTruncate", p, <<>>)
             \/ CpWrite(p) /\ Log("CpWrite", p, <<>>)
             \/ CpDeleteStep(p) /\ Log("CpDelete", p, <<>>)
             \/ OutDeleteStep(p) /\ Log("OutDelete", p, <<>>)
             \/ Finish(p) /\ Log("Finish", p, <<inv[p].api>>)
             \/ Analyze(p) /\ Log("Analyze", p, <<>>)
             \/ ResultShow(p) /\ Log("ResultShow", p, <<>>)
             \/ CpShow(p) /\ Log("CpShow", p, <<>>)
  \/ \E p \in Procs : ncrash < MaxCrashes /\ Thin(6) /\ Crash(p) /\ ncrash' = ncrash + 1 /\ Log("Crash", p, <<inv[p].api, inv[p].pc>>)
SSpec == SInit /\ [][SNext]_svars

Emit == (EmitDepth > 0 /\ Len(hist) = EmitDepth) => PrintT(<<"BEH", ToJson([hist |-> hist])>>)
\* the obligations of Monorail.tla hold along every replayed behaviour too
SessionInv == AtMostOneHolder /\ HolderIsPastLock /\ ResultShowNeverTorn /\ RunCoversAffected /\ AnalyzeNeverMixes /\ CpShowNeverMixes
=============================================================================
