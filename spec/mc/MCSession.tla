----------------------------- MODULE MCSession -----------------------------
(* Behaviours of the composed specification (Monorail.tla) for replay on the   *)
(* real system: every step is logged with the abstract state it leads to, so   *)
(* that a driver can step real processes through the same actions (holding     *)
(* each at the hook point that bounds the action) and compare the projected    *)
(* state after every step.                                                     *)
(*                                                                             *)
(* Grain: the guarded build has no hook between the moment `checkpoint update` *)
(* has read the repository and the truncation of the checkpoint file, so the   *)
(* replayed relation takes CpRead and CpTruncate as ONE step (CpReadTruncate,  *)
(* their composition); the exhaustive check of Monorail.tla keeps them apart.  *)
EXTENDS Monorail, Json
CONSTANTS EmitDepth, MaxCrashes
VARIABLES hist, ncrash
svars == <<vars, hist, ncrash>>

MCCfg == [targets |-> << [path |-> <<"a">>, uses |-> <<>>, ignores |-> <<>>],
                         [path |-> <<"b">>, uses |-> << <<"a", "f">> >>, ignores |-> <<>>],
                         [path |-> <<"c">>, uses |-> <<>>, ignores |-> <<>>] >>]
MCComp == [p \in {"af", "bf", "cf"} |-> CASE p = "af" -> <<"a", "f">> [] p = "bf" -> <<"b", "f">> [] OTHER -> <<"c", "f">>]

CpReadTruncate(p) ==
  /\ inv[p].pc = "held" /\ inv[p].api = "cp_update"
  /\ IF cpfile = "ok"
     THEN /\ inv' = [inv EXCEPT ![p] = [@ EXCEPT !.pc = "cpwrite", !.ncp = CpUpdate(repo, 0, TRUE).cp]]
          /\ cpfile' = "torn" /\ UNCHANGED holder
     ELSE Release(p) /\ UNCHANGED cpfile
  /\ actor' = p /\ UNCHANGED <<repo, store, nruns, nedits, obs>>

Post == [store |-> store', cpfile |-> cpfile', cp |-> repo'.cp, holder |-> holder', obs |-> obs',
         pcs |-> [p \in Procs |-> inv'[p].pc], wt |-> repo'.wt, ncommits |-> Len(repo'.commits),
         affected |-> AffectedNow']
Log(a, p, x) == hist' = Append(hist, [a |-> a, p |-> p, x |-> x, pre |-> [holder |-> holder, canstart |-> CanStart(store), cpfile |-> cpfile],
                                       post |-> Post])

\* simulation weighting only (RandomElement is evaluated afresh for every step TLC generates): starts, edits and
\* crashes are thinned out so that invocations usually run on to their later steps
Thin(k) == RandomElement(1..k) = 1
SInit == Init /\ hist = <<>> /\ ncrash = 0
SNext ==
  \/ /\ UNCHANGED ncrash
     /\ \/ \E p \in Paths, c \in 1..2 : Thin(3) /\ EnvEdit(p, c) /\ Log("EnvEdit", 0, <<p, c>>)
        \/ EnvCommitAll /\ Log("EnvCommitAll", 0, <<>>)
        \/ \E p \in Procs :
             \/ \E api \in Mutating \cup Readers : Thin(IF api = "run" THEN 2 ELSE 4) /\ Start(p, api) /\ Log("Start", p, <<api>>)
             \/ TryLock(p) /\ Log("TryLock", p, <<inv[p].api>>)
             \/ RunChoose(p) /\ Log("RunChoose", p, <<>>)
             \/ RunEffect(p) /\ Log("RunEffect", p, <<Effs[inv[p].e], inv[p].r, inv[p].k>>)
             \/ RunReadRepo(p) /\ Log("RunReadRepo", p, <<inv[p].r>>)
             \/ CpReadTruncate(p) /\ Log("CpReadTruncate", p, <<>>)
             \/ CpWrite(p) /\ Log("CpWrite", p, <<>>)
             \/ CpDeleteStep(p) /\ Log("CpDelete", p, <<>>)
             \/ OutDeleteStep(p) /\ Log("OutDelete", p, <<>>)
             \/ Analyze(p) /\ Log("Analyze", p, <<>>)
             \/ ResultShow(p) /\ Log("ResultShow", p, <<>>)
  \/ \E p \in Procs : ncrash < MaxCrashes /\ Thin(6) /\ Crash(p) /\ ncrash' = ncrash + 1 /\ Log("Crash", p, <<inv[p].api, inv[p].pc>>)
SSpec == SInit /\ [][SNext]_svars

Emit == (EmitDepth > 0 /\ Len(hist) = EmitDepth) => PrintT(<<"BEH", ToJson([hist |-> hist])>>)
\* the obligations of Monorail.tla hold along every replayed behaviour too
SessionInv == AtMostOneHolder /\ HolderIsPastLock /\ ResultShowNeverTorn /\ RunCoversAffected /\ AnalyzeNeverMixes
=============================================================================
