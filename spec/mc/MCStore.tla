------------------------------- MODULE MCStore -------------------------------
(* Bounded instance of Store.tla: every history of up to MaxRuns invocations,  *)
(* each completing, aborting after slot set-up, or crashing between any two    *)
(* effects.                                                                    *)
EXTENDS Store, TLC, Json
CONSTANTS N, MaxRuns, AtomicPointer, EmitBehaviours, Faults   \* Faults: invocations may abort or crash
VARIABLES st, cur, runs, completedIn, hist   \* hist: how each invocation ended (kind, effects performed); cur: in-flight invocation or idle; completedIn[r] = slot of completed run r (0 otherwise)
vars == <<st, cur, runs, completedIn, hist>>
View == <<st, cur, runs, completedIn>>
Idle == [k |-> 0, r |-> 0, pc |-> 0]
Effs == Effects(AtomicPointer)

Init == st = Store0(N) /\ cur = Idle /\ runs = 0 /\ completedIn = [r \in 1..MaxRuns |-> 0] /\ hist = <<>>
Start == /\ cur = Idle /\ runs < MaxRuns /\ CanStart(st)
         /\ runs' = runs + 1 /\ cur' = [k |-> NextSlot(st, N), r |-> runs + 1, pc |-> 1]
         /\ UNCHANGED <<st, completedIn, hist>>
StartFails == cur = Idle /\ runs < MaxRuns /\ ~CanStart(st) /\ runs' = runs + 1 /\ hist' = Append(hist, [kind |-> "refused", n |-> 0]) /\ UNCHANGED <<st, cur, completedIn>>
Step == /\ cur # Idle /\ cur.pc <= Len(Effs)
        /\ st' = Apply(st, Effs[cur.pc], cur.k, cur.r)
        /\ IF cur.pc = Len(Effs)
           THEN cur' = Idle /\ completedIn' = [completedIn EXCEPT ![cur.r] = cur.k] /\ hist' = Append(hist, [kind |-> "complete", n |-> Len(Effs)])
           ELSE cur' = [cur EXCEPT !.pc = @ + 1] /\ UNCHANGED <<completedIn, hist>>
        /\ UNCHANGED runs
Abort == Faults /\ cur # Idle /\ cur.pc = 3 /\ cur' = Idle /\ hist' = Append(hist, [kind |-> "abort", n |-> 2]) /\ UNCHANGED <<st, runs, completedIn>>   \* after wipe + mkdir
Crash == Faults /\ cur # Idle /\ cur' = Idle /\ hist' = Append(hist, [kind |-> "crash", n |-> cur.pc - 1]) /\ UNCHANGED <<st, runs, completedIn>>
Next == Start \/ StartFails \/ Step \/ Abort \/ Crash
Spec == Init /\ [][Next]_vars

Quiescent == cur = Idle
\* C12: the pointer names the latest completed run and its result is there
PointerNamesLatest == Quiescent => LatestAddressed(st, N)
\* C13: whatever happens to later invocations, the last completed run stays addressable - also mid-flight (N >= 2)
CrashPreservesLast == (N >= 2 /\ st.last # 0 /\ st.ptr # -1) => ResultShows(st, N) = st.last
PointerNeverBroken == Quiescent => st.ptr # -1
NextRunPossible == Quiescent => Startable(st)
\* C12 retention: each of the last N completed runs is still in its slot, unless a later invocation reused it
Retained == Quiescent => \A r \in 1..MaxRuns :
              (completedIn[r] # 0 /\ \A r2 \in (r + 1)..runs : TRUE) =>
                 LET k == completedIn[r] IN
                 (st.slot[k].run = r => st.slot[k].stage = "result")
\* a slot never shows anything older than the run that last set it up
NoLeftovers == \A k \in 1..N : st.slot[k].stage # "absent" => st.slot[k].run > 0
\* in a crash-free, abort-free history the last N runs are all retrievable: checked via action constraint-free variant below
LastNRetrievable == (Quiescent /\ \A r \in 1..runs : completedIn[r] # 0) =>
                      \A r \in 1..runs : r > runs - N => st.slot[completedIn[r]] = [run |-> r, stage |-> "result"]
Emit == (EmitBehaviours /\ runs = MaxRuns /\ cur = Idle) => PrintT(<<"BEH", ToJson([n |-> N, hist |-> hist])>>)
=============================================================================
