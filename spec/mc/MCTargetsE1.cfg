CONSTANTS MaxT = 2
 MaxU = 1
 MaxI = 1
 Shard = 0
 NShards = 1
 EmitCases = FALSE
SPECIFICATION Spec
INVARIANTS Laws Emit
CHECK_DEADLOCK FALSE
