------------------------------ MODULE LockProof ------------------------------
(* TLAPS proof that Lock.tla's specification keeps at most one invocation past  *)
(* lock acquisition - for ANY number of contenders and APIs (TLC checks 3 x 4). *)
(* Mutual exclusion is stated pairwise (no Cardinality reasoning needed).       *)
EXTENDS Lock, TLAPS

ASSUME ZeroNotAProc == 0 \notin Procs

PcValues == {"init", "cfg", "holding", "lockfail", "done", "dead"}
TypeInv == /\ pc \in [Procs -> PcValues]
           /\ holder \in Procs \cup {0}
HolderInv == \A p \in Procs : pc[p] = "holding" <=> holder = p
Inv == TypeInv /\ HolderInv

MutexPairs == \A p, q \in Procs : (pc[p] = "holding" /\ pc[q] = "holding") => p = q

LEMMA InitInv == Init => Inv
  BY ZeroNotAProc DEF Init, Inv, TypeInv, HolderInv, PcValues

LEMMA NextInv == Inv /\ [Next]_vars => Inv'
<1> SUFFICES ASSUME Inv, [Next]_vars PROVE Inv'
  OBVIOUS
<1>1. CASE UNCHANGED vars
  BY <1>1 DEF Inv, TypeInv, HolderInv, vars
<1>2. ASSUME NEW p \in Procs, LoadCfg(p) PROVE Inv'
  BY <1>2, ZeroNotAProc DEF LoadCfg, Inv, TypeInv, HolderInv, PcValues
<1>3. ASSUME NEW p \in Procs, TryAcquire(p) PROVE Inv'
  BY <1>3, ZeroNotAProc DEF TryAcquire, Inv, TypeInv, HolderInv, PcValues
<1>4. ASSUME NEW p \in Procs, Mutate(p) PROVE Inv'
  BY <1>4 DEF Mutate, Inv, TypeInv, HolderInv
<1>5. ASSUME NEW p \in Procs, Exit(p) PROVE Inv'
  BY <1>5, ZeroNotAProc DEF Exit, Inv, TypeInv, HolderInv, PcValues
<1>6. ASSUME NEW p \in Procs, Kill(p) PROVE Inv'
  BY <1>6, ZeroNotAProc DEF Kill, Inv, TypeInv, HolderInv, PcValues
<1> QED
  BY <1>1, <1>2, <1>3, <1>4, <1>5, <1>6 DEF Next

LEMMA InvImpliesMutex == Inv => MutexPairs
  BY DEF Inv, HolderInv, MutexPairs

THEOREM Safety == Spec => []MutexPairs
<1>1. Inv /\ [][Next]_vars => []Inv
  BY NextInv, PTL
<1> QED
  BY <1>1, InitInv, InvImpliesMutex, PTL DEF Spec
=============================================================================
