----------------------------- MODULE ChangesJudge -----------------------------
(* Trace validation of repository / checkpoint histories against Changes.tla    *)
(* and Targets.tla (C02, C07, C19).  The harness performs TLC-generated or       *)
(* random actions with real git and the real binary and records, per step, the  *)
(* action with its arguments and what monorail answered.  The specification     *)
(* state follows the recorded actions; every recorded answer must be what the   *)
(* specification computes for that state.  The judge never blocks: an answer    *)
(* it cannot explain is printed as FAIL and validation continues, so one pass   *)
(* examines every step of every behaviour.                                      *)
EXTENDS Changes, Targets, TLC, Json, IOUtils, SequencesExt

Rec == ndJsonDeserialize(IOEnv.TRACE)

VARIABLES l, s, cfg, comp, lastUp, prevUpd, beh
\* comp: path id -> component sequence; lastUp: what the last successful update returned;
\* prevUpd: the previous step was `checkpoint update --pending` without --id
vars == <<l, s, cfg, comp, lastUp, prevUpd, beh>>

Empty == [paths |-> {}, ignored |-> {}, commits |-> <<>>, idx |-> <<>>, wt |-> <<>>,
          cp |-> [set |-> FALSE, id |-> 0, pend |-> <<>>]]
Init == l = 1 /\ s = Empty /\ cfg = [targets |-> <<>>] /\ comp = <<>> /\ lastUp = [id |-> 0, pending |-> {}]
        /\ prevUpd = FALSE /\ beh = 0

Fail(why) == PrintT(<<"FAIL", ToJson([i |-> l, beh |-> beh, why |-> why])>>)
Check(S) == \A w \in S : Fail(w)      \* S: set of reasons (empty = fine)

ResetState(r) ==
  LET P  == { x.id : x \in RangeOf(r.paths) }
      t0 == [p \in P |-> (CHOOSE x \in RangeOf(r.init) : x[1] = p)[2]]
  IN [paths |-> P, ignored |-> RangeOf(r.ignored), commits |-> <<t0>>, idx |-> t0, wt |-> t0,
      cp |-> [set |-> FALSE, id |-> 0, pend |-> [p \in P |-> -1]]]

\* the pending map of a checkpoint as a set of <<path, content id>> pairs
PendSet(st) == { <<p, st.cp.pend[p]>> : p \in { q \in st.paths : st.cp.pend[q] # -1 } }
OutPend(o) == { <<x[1], x[2]>> : x \in RangeOf(o.pending) }

CompSet(ps) == { comp[p] : p \in ps }
AllTargets == TPaths(cfg)

AnalyzeWhys(r) ==
  IF r.rc # 0 THEN {"C02:analyze failed"}
  ELSE IF ~s.cp.set
  THEN (IF r.checkpointed \/ RangeOf(r.targets) # AllTargets
        THEN {"C19:without a checkpoint analyze must report checkpointed=false and every target"} ELSE {})
  ELSE LET want == ChangeSet(s, r.begin, r.end)
           got  == RangeOf(r.changes)
           tg   == RangeOf(r.targets)
           lo   == AffectedLo(cfg, CompSet(want))
           hi   == AffectedHi(cfg, CompSet(want))
           dflt == r.begin = 0 /\ r.end = 0
       IN (IF ~r.checkpointed THEN {"C19:analyze reports checkpointed=false although a checkpoint exists"} ELSE {})
          \cup (IF got # want THEN {"C02:reported changes differ from the difference to the checkpoint"} ELSE {})
          \cup (IF ~r.sorted THEN {"C02:reported changes are not sorted"} ELSE {})
          \cup (IF dflt /\ prevUpd /\ (got # {} \/ tg # {})
                THEN {"C07:something is still reported as changed right after checkpoint update --pending"} ELSE {})
          \* judged against the TRUE change set: if a changed path is not reported (a C02 failure) and its targets therefore
          \* do not reappear, the re-flag law of C07 is broken as well
          \cup (IF ~(lo \subseteq tg /\ tg \subseteq hi)
                THEN {"C07:changed targets are not exactly those affected by the changed paths"} ELSE {})

RunWhys(r) ==
  LET started == RangeOf(r.started)
      want    == IF s.cp.set THEN ChangeSet(s, 0, 0) ELSE {}
      lo      == IF s.cp.set THEN AffectedLo(cfg, CompSet(want)) ELSE AllTargets
      hi      == IF s.cp.set THEN AffectedHi(cfg, CompSet(want)) ELSE AllTargets
  IN IF r.rc # 0 THEN {"C05:run failed"}
     ELSE (IF ~s.cp.set /\ started # AllTargets THEN {"C19:without a checkpoint run must cover every target"} ELSE {})
          \cup (IF s.cp.set /\ prevUpd /\ started # {} THEN {"C07:run executed something right after checkpoint update --pending"} ELSE {})
          \cup (IF s.cp.set /\ ~(lo \subseteq started /\ started \subseteq hi)
                THEN {"C07:run did not execute exactly the targets affected by the changed paths"} ELSE {})

Step(r) ==
  CASE r.ev = "reset" ->
         /\ s' = ResetState(r) /\ cfg' = r.cfg /\ comp' = [p \in { x.id : x \in RangeOf(r.paths) } |-> (CHOOSE x \in RangeOf(r.paths) : x.id = p).comp]
         /\ lastUp' = [id |-> 0, pending |-> {}] /\ prevUpd' = FALSE /\ beh' = r.beh
    [] r.ev = "write"     -> s' = Write(s, r.p, r.c)   /\ prevUpd' = FALSE /\ UNCHANGED <<cfg, comp, lastUp, beh>>
    [] r.ev = "delete"    -> s' = Delete(s, r.p)       /\ prevUpd' = FALSE /\ UNCHANGED <<cfg, comp, lastUp, beh>>
    [] r.ev = "move"      -> s' = Move(s, r.p, r.q)    /\ prevUpd' = FALSE /\ UNCHANGED <<cfg, comp, lastUp, beh>>
    [] r.ev = "gitmv"     -> s' = GitMv(s, r.p, r.q)   /\ prevUpd' = FALSE /\ UNCHANGED <<cfg, comp, lastUp, beh>>
    [] r.ev = "stage"     -> s' = Stage(s, r.p)        /\ prevUpd' = FALSE /\ UNCHANGED <<cfg, comp, lastUp, beh>>
    [] r.ev = "stage_all" -> s' = StageAll(s)          /\ prevUpd' = FALSE /\ UNCHANGED <<cfg, comp, lastUp, beh>>
    [] r.ev = "commit"    -> s' = Commit(s)            /\ prevUpd' = FALSE /\ UNCHANGED <<cfg, comp, lastUp, beh>>
    [] r.ev = "cp_update" ->
         \* The ideal update (Changes!CpUpdate) is compared with what the update returned; the state then
         \* follows the RECORDED checkpoint (id, pending), because C02 is stated relative to the checkpoint
         \* as stored.  The pending map is only prescribed for updates that ask for --pending (C07).
         LET s2  == CpUpdate(s, r.id, r.pending)
             obs == [p \in s.paths |-> IF \E x \in OutPend(r.out) : x[1] = p
                                       THEN (CHOOSE x \in OutPend(r.out) : x[1] = p)[2] ELSE -1]
         IN
         IF r.rc # 0 THEN Fail("C19:checkpoint update failed") /\ UNCHANGED <<s, lastUp, prevUpd, cfg, comp, beh>>
         ELSE /\ Check((IF r.out.id # s2.cp.id THEN {"C19:update did not record the requested commit (HEAD when no --id)"} ELSE {})
                       \cup (IF r.pending /\ OutPend(r.out) # PendSet(s2)
                             THEN {"C07:update --pending did not record the current content of exactly the pending paths"} ELSE {}))
              /\ s' = [s EXCEPT !.cp = [set |-> TRUE, id |-> IF r.out.id \in 1..Len(s.commits) THEN r.out.id ELSE s2.cp.id, pend |-> obs]]
              /\ lastUp' = [id |-> r.out.id, pending |-> OutPend(r.out)]
              /\ prevUpd' = (r.pending /\ r.id = 0) /\ UNCHANGED <<cfg, comp, beh>>
    \* an update whose change provider failed (injected) or that was killed part-way: nothing is recorded; what the
    \* store then holds is judged by the following show / analyze / run observations
    [] r.ev = "cp_update_fault" -> prevUpd' = FALSE /\ UNCHANGED <<s, cfg, comp, lastUp, beh>>
    [] r.ev = "cp_show" ->
         /\ Check(IF s.cp.set
                  THEN (IF r.rc # 0 \/ r.out.id # lastUp.id \/ OutPend(r.out) # lastUp.pending
                        THEN {"C19:checkpoint show differs from what the last update returned"} ELSE {})
                  ELSE (IF r.rc = 0 THEN {"C19:checkpoint show succeeded although there is no checkpoint"} ELSE {}))
         /\ UNCHANGED <<s, cfg, comp, lastUp, prevUpd, beh>>
    [] r.ev = "cp_delete" ->
         /\ Check(IF s.cp.set THEN (IF r.rc # 0 THEN {"C19:checkpoint delete failed"} ELSE {}) ELSE {})
         /\ s' = (IF r.rc = 0 THEN CpDelete(s) ELSE s) /\ prevUpd' = FALSE /\ UNCHANGED <<cfg, comp, lastUp, beh>>
    [] r.ev = "out_delete_all" ->
         \* (invoked from a directory other than the repository's it may refuse; a reported success still means deleted)
         /\ Check(IF r.rc # 0 /\ ~("elsewhere" \in DOMAIN r /\ r.elsewhere) THEN {"C19:out delete --all failed"} ELSE {})
         /\ s' = (IF r.rc = 0 THEN CpDelete(s) ELSE s) /\ prevUpd' = FALSE /\ UNCHANGED <<cfg, comp, lastUp, beh>>
    [] r.ev = "analyze" -> Check(AnalyzeWhys(r)) /\ UNCHANGED <<s, cfg, comp, lastUp, prevUpd, beh>>
    [] r.ev = "run"     -> Check(RunWhys(r)) /\ UNCHANGED <<s, cfg, comp, lastUp, prevUpd, beh>>
    [] OTHER -> Fail("unknown event") /\ UNCHANGED <<s, cfg, comp, lastUp, prevUpd, beh>>

Next == l <= Len(Rec) /\ Step(Rec[l]) /\ l' = l + 1
Spec == Init /\ [][Next]_vars
Done == l = Len(Rec) + 1 => PrintT(<<"DONE", Len(Rec)>>)
=============================================================================
