----------------------------- MODULE ConfigJudge -----------------------------
(* Trace validation of generate / tamper / restore / use-API histories against *)
(* ConfigFile.tla (C17) and judgement of style/size variations of one          *)
(* configuration value (C18).  The specification state follows the recorded    *)
(* actions; every API outcome must be what the specification demands.          *)
EXTENDS ConfigFile, Sequences, TLC, Json, IOUtils

Rec == ndJsonDeserialize(IOEnv.TRACE)
RangeOf(s) == { s[i] : i \in DOMAIN s }

VARIABLES l, c, beh
vars == <<l, c, beh>>
Init == l = 1 /\ c = Cfg0 /\ beh = 0
Fail(why) == PrintT(<<"FAIL", ToJson([i |-> l, beh |-> beh, why |-> why])>>)
Check(S) == \A w \in S : Fail(w)

UseWhys(r) ==
  IF Untouched(c)
  THEN (IF r.rc # 0 THEN {"C17:an API failed although source, generated file and lockfile are untouched (" \o r.api \o ")"} ELSE {})
  ELSE (IF r.rc = 0 THEN {"C17:an API succeeded although source, generated file or lockfile changed (" \o r.api \o ", " \o r.what \o ")"} ELSE {})
       \cup (IF r.effects THEN {"C17:a failing API performed an action (" \o r.api \o ")"} ELSE {})

C18Whys(r) ==
  LET first == r.styles[1] IN
  { "C18:configuration rejected in serialisation " \o r.styles[j].style :
      j \in { i \in DOMAIN r.styles : r.styles[i].rc # 0 } }
  \cup { "C18:output depends on the serialisation (" \o r.styles[j].style \o ")" :
      j \in { i \in DOMAIN r.styles : r.styles[i].rc = 0 /\ first.rc = 0 /\ r.styles[i].digest # first.digest } }

Step(r) ==
  CASE r.ev = "reset"    -> c' = Cfg0 /\ beh' = r.beh
    \* generating from a source that has itself been damaged may legitimately fail (it may no longer be valid JSON)
    [] r.ev = "generate" -> /\ Check(IF r.rc # 0 /\ c.src.dirty = {} THEN {"C17:config generate failed"} ELSE {})
                            /\ c' = (IF r.rc = 0 THEN Generate(c) ELSE c) /\ UNCHANGED beh
    [] r.ev = "edit_source" -> c' = EditSource(c) /\ UNCHANGED beh
    [] r.ev = "tamper"   -> c' = Tamper(c, r.file, r.region) /\ UNCHANGED beh
    [] r.ev = "restore"  -> c' = Restore(c, r.file, r.region) /\ UNCHANGED beh
    [] r.ev = "use_api"  -> Check(UseWhys(r)) /\ UNCHANGED <<c, beh>>
    [] r.ev = "c18"      -> Check(C18Whys(r)) /\ UNCHANGED <<c, beh>>
    [] OTHER             -> Fail("unknown event") /\ UNCHANGED <<c, beh>>
Next == l <= Len(Rec) /\ Step(Rec[l]) /\ l' = l + 1
Spec == Init /\ [][Next]_vars
Done == l = Len(Rec) + 1 => PrintT(<<"DONE", Len(Rec)>>)
=============================================================================
