------------------------------ MODULE JudgeA ------------------------------
(* Judges records of what the implementation computed for a configuration   *)
(* (change -> target mapping, dependency edges, target groups) against      *)
(* Targets.tla and Dag.tla: properties C01, C10, C03, C09.                   *)
(* One specification step consumes one record; a record the specification   *)
(* cannot explain is printed as a FAIL line.  Nothing is decided outside     *)
(* TLC except byte-order facts about concrete strings (`strictly_sorted`).   *)
EXTENDS Targets, Dag, Cli, TLC, Json, IOUtils, SequencesExt, FiniteSetsExt

Rec == ndJsonDeserialize(IOEnv.TRACE)

NoDup(s) == Cardinality(RangeOf(s)) = Len(s)

\* ------------------------------------------------------------------ C01
NonIgnored(e)   == { x.path : x \in { y \in RangeOf(e.targets) : y.reason # "ignores" } }
BreakdownUnion(o) == UNION { NonIgnored(e) : e \in RangeOf(o.per_change) }

AnalyzeWhy(r) ==
  LET c   == r.config
      \* the changed paths: as established independently of the implementation where the driver could (git's own
      \* answer for the same two states), else the ones the implementation listed; psr = the ones it listed
      ps  == IF "true_changes" \in DOMAIN r THEN RangeOf(r.true_changes) ELSE RangeOf(r.changes)
      psr == RangeOf(r.changes)
      out == RangeOf(r.out.targets)
      lo  == AffectedLo(c, ps)
      hi  == AffectedHi(c, ps)
  IN IF ~r.out.ok
     THEN \* a cyclic configuration may be rejected outright (C09); nothing else may
          IF r.out.err = "graph" /\ Cyclic(DepAdj(c), TPaths(c)) THEN "" ELSE "analyze returned an error"
     ELSE IF ~NoDup(r.out.targets) THEN "summary has duplicates"
     ELSE IF ~r.out.strictly_sorted THEN "summary not sorted"
     ELSE IF ~(lo \subseteq out) THEN "affected target missing from summary"
     ELSE IF ~(out \subseteq hi) THEN "unaffected target in summary"
     ELSE IF { e.path : e \in RangeOf(r.out.per_change) } # psr THEN "breakdown does not cover exactly the changes"
     ELSE IF BreakdownUnion(r.out) # out THEN "summary differs from union of non-ignored breakdown entries"
     ELSE IF \E s \in RangeOf(r.out.singles) :
               LET so == RangeOf(s.targets) IN
               ~(AffectedLo(c, {s.path}) \subseteq so /\ so \subseteq AffectedHi(c, {s.path})
                 /\ NoDup(s.targets) /\ s.strictly_sorted)
          THEN "single-change analysis wrong"
     ELSE IF \E s \in RangeOf(r.out.pairs) :
               LET so == RangeOf(s.targets) IN
               ~(AffectedLo(c, RangeOf(s.paths)) \subseteq so /\ so \subseteq AffectedHi(c, RangeOf(s.paths))
                 /\ NoDup(s.targets) /\ s.strictly_sorted)
          THEN "two-change analysis wrong"
     ELSE IF \E alt \in RangeOf(r.out.presentations) : RangeOf(alt) # out
          THEN "summary depends on order, number or batching of changes"
     ELSE ""

\* ------------------------------------------------------------------ C10
EdgesWhy(r) ==
  LET c == r.config IN
  IF ~r.out.ok
  THEN \* a cyclic configuration may be rejected outright (C09); nothing else may
       IF r.out.err = "graph" /\ Cyclic(DepAdj(c), TPaths(c)) THEN "" ELSE "index construction returned an error"
  ELSE IF ~NoDup(r.out.nodes) \/ RangeOf(r.out.nodes) # TPaths(c) THEN "nodes are not exactly the configured targets"
  ELSE IF ~NoDup(r.out.edges) THEN "duplicate edge"
  ELSE IF \E e \in RangeOf(r.out.edges) : e \notin DepPairs(c) THEN "edge that the configuration does not declare"
  ELSE IF \E d \in DepPairs(c) : d \notin RangeOf(r.out.edges) THEN "declared dependency missing"
  ELSE ""

\* ------------------------------------------------------------------ C03 / C09
GroupSets(g) == [ i \in DOMAIN g |-> RangeOf(g[i]) ]
GroupsWhy(r) ==
  LET c  == r.config
      a  == DepAdj(c)
      V  == Closure(a, RangeOf(r.roots))
      \* pruned to the changed targets: given directly, or as the changed paths (no `ignores` in these configurations)
      S  == IF r.pruned THEN (IF "change_paths" \in DOMAIN r THEN AffectedLo(c, RangeOf(r.change_paths)) ELSE RangeOf(r.changed)) ELSE V
      cyclicReach == Cyclic(a, V)
      cyclicAny   == Cyclic(a, TPaths(c))
  IN IF cyclicReach
     THEN IF r.out.ok THEN "groups returned for a cyclic configuration"
          ELSE IF r.out.err # "graph" THEN "cyclic configuration rejected with a non-graph error"
          ELSE ""
     ELSE IF ~r.out.ok
          THEN IF cyclicAny THEN "" ELSE "acyclic configuration rejected"
          ELSE IF \E i \in DOMAIN r.out.groups : ~NoDup(r.out.groups[i]) THEN "duplicate inside a group"
          ELSE IF ~ValidLayering(a, S, GroupSets(r.out.groups)) THEN "groups are not a valid layering of the requested targets"
          ELSE ""

\* bare graph records: nodes 0..n-1, adj[k+1] = dependencies of node k
DagWhy(r) ==
  LET n == Len(r.adj)
      a == [ k \in 0..(n - 1) |-> RangeOf(r.adj[k + 1]) ]
      V == Closure(a, RangeOf(r.roots))
  IN IF Cyclic(a, V)
     THEN IF r.out.ok THEN "groups returned for a cyclic graph"
          ELSE IF r.out.err # "graph" THEN "cyclic graph rejected with a non-graph error"
          ELSE ""
     ELSE IF ~r.out.ok
          THEN IF Cyclic(a, 0..(n - 1)) THEN "" ELSE "acyclic graph rejected"
          ELSE IF \E i \in DOMAIN r.out.groups : ~NoDup(r.out.groups[i]) THEN "duplicate inside a group"
          ELSE IF ~ValidLayering(a, V, GroupSets(r.out.groups)) THEN "groups are not a valid layering of the closure of the roots"
          ELSE ""

\* large acyclic graphs: acyclicity is established by checking the recorded topological rank (a certificate) edge by
\* edge; the layering is then checked with a position function (linear in nodes x groups + edges)
DagBigWhy(r) ==
  LET n    == Len(r.adj)
      a(k) == RangeOf(r.adj[k + 1])
      cert == \A k \in 0..(n - 1) : \A u \in a(k) : r.rank[u + 1] < r.rank[k + 1]
  IN IF ~cert THEN "harness: acyclicity certificate does not check"
     ELSE IF ~r.out.ok THEN "acyclic graph rejected"
     ELSE LET g   == r.out.groups
              all == UNION { RangeOf(g[i]) : i \in DOMAIN g }
              cnt == FoldSet(LAMBDA i, acc : acc + Len(g[i]), 0, DOMAIN g)
          IN IF all # 0..(n - 1) \/ cnt # n \/ \E i \in DOMAIN g : g[i] = <<>>
             THEN "groups are not a valid layering of the closure of the roots"
             ELSE LET pos == [ k \in 0..(n - 1) |-> CHOOSE i \in DOMAIN g : k \in RangeOf(g[i]) ]
                  IN IF \E k \in 0..(n - 1) : \E u \in a(k) : pos[u] >= pos[k]
                     THEN "groups are not a valid layering of the closure of the roots" ELSE ""

ShapeWhy(r) ==
  IF r.api = "analyze" THEN AnalyzeShapeWhy(r.flags, RangeOf(r.keys), RangeOf(r.change_has_targets), r.checkpointed, r.cp_exists)
  ELSE TargetShowShapeWhy(r.flags, RangeOf(r.keys), r.any_commands, r.any_argmaps)

Why(r) == CASE r.ev = "analyze" -> AnalyzeWhy(r)
            [] r.ev = "shape"   -> ShapeWhy(r)
            [] r.ev = "dag_big" -> DagBigWhy(r)
            [] r.ev = "dag"     -> DagWhy(r)
            [] r.ev = "edges"   -> EdgesWhy(r)
            [] r.ev = "groups"  -> GroupsWhy(r)
            [] OTHER            -> "unknown record kind"

VARIABLE l
Init == l = 1
Next == /\ l <= Len(Rec)
        /\ LET w == Why(Rec[l]) IN
             IF w = "" THEN TRUE ELSE PrintT(<<"FAIL", ToJson([i |-> l, why |-> w])>>)
        /\ l' = l + 1
Spec == Init /\ [][Next]_l
Done == l = Len(Rec) + 1 => PrintT(<<"DONE", Len(Rec)>>)
=============================================================================
