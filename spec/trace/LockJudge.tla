------------------------------ MODULE LockJudge ------------------------------
(* Judges one recorded lock-contention scenario per step (C14).  Every process  *)
(* of a scenario is described by monotonic stamps taken by the harness (spawn,  *)
(* kill sent, exit observed) and by the process itself through the guarded      *)
(* hook (lock.acquired right after the bind, lock.releasing while it still      *)
(* holds the listener), so recorded holding intervals lie INSIDE the real ones: *)
(* two recorded intervals that overlap prove that the real ones did.            *)
(* Lock.tla's MutualExclusion / LoserIsInert / ReleasedOnExitOrKill are         *)
(* evaluated on these intervals.                                                *)
EXTENDS Integers, Sequences, FiniteSets, TLC, Json, IOUtils

Rec == ndJsonDeserialize(IOEnv.TRACE)
RangeOf(s) == { s[i] : i \in DOMAIN s }

Acquired(p) == p.acquired_ts >= 0
\* definite holding interval: from the acquired stamp to the releasing stamp, or to the moment the kill was sent
DefEnd(p) == IF p.releasing_ts >= 0 THEN p.releasing_ts ELSE IF p.kill_ts >= 0 THEN p.kill_ts ELSE p.exit_ts
Overlap(a1, a2, b1, b2) == a1 < b2 /\ b1 < a2
\* possible holding interval: the whole life of a process that acquired
\* (when nobody was reading the invocation's standard error, the message is lost and the exit status is all there is)
LockError(p) == p.rc # 0 /\ (p.err = "server" \/ ("errlost" \in DOMAIN p /\ p.errlost))

ScenarioWhys(r) ==
  LET P == RangeOf(r.procs) IN
  { "C14:two invocations were past lock acquisition at the same time" :
      x \in { pq \in P \X P : /\ pq[1].p < pq[2].p /\ Acquired(pq[1]) /\ Acquired(pq[2])
                              /\ Overlap(pq[1].acquired_ts, DefEnd(pq[1]), pq[2].acquired_ts, DefEnd(pq[2])) } }
  \cup { "C14:an invocation that did not get the lock did not exit with a lock error" :
      p \in { q \in P : ~Acquired(q) /\ q.kill_ts < 0 /\ ~LockError(q) } }
  \cup { "C14:an invocation that did not get the lock started an executable or changed checkpoint, results or logs" :
      p \in { q \in P : ~Acquired(q) /\ q.kill_ts < 0 /\ (q.helpers > 0 \/ q.changed) } }
  \* (not for a lock address that no invocation can bind at all, e.g. a port number above 65535: there every invocation
  \* fails with the lock error and the property holds with nobody ever past acquisition)
  \cup { "C14:lock acquisition failed although no other invocation was alive" :
      p \in { q \in P : ~("unusable" \in DOMAIN r /\ r.unusable) /\ ~Acquired(q) /\ q.kill_ts < 0 /\ LockError(q)
                        /\ ~\E h \in P : h.p # q.p /\ Acquired(h) /\ Overlap(h.spawn_ts, h.exit_ts, q.spawn_ts, q.exit_ts) } }

\* waited for the lock: reached its acquisition attempt while another invocation definitely held the lock for at least
\* another two seconds (the harness reports the duration; the bind itself takes microseconds), and still acquired
Queued(r) ==
  { "C14:an invocation that tried to acquire while another held the lock waited for it instead of failing" :
      p \in { q \in RangeOf(r.procs) : Acquired(q) /\ q.held_after_try_ms >= 2000 } }

VARIABLE l
Init == l = 1
Next == /\ l <= Len(Rec)
        /\ \A w \in ScenarioWhys(Rec[l]) \cup Queued(Rec[l]) : PrintT(<<"FAIL", ToJson([i |-> l, why |-> w])>>)
        /\ l' = l + 1
Spec == Init /\ [][Next]_l
Done == l = Len(Rec) + 1 => PrintT(<<"DONE", Len(Rec)>>)
=============================================================================
