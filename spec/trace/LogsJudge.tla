------------------------------ MODULE LogsJudge ------------------------------
(* Judges recorded log captures against Logs.tla (C08):                        *)
(*  - `capture` records come from the real process_reader / Compressor driven  *)
(*    under virtual time with a TLC-enumerated chunk script and tick placement *)
(*    per stream; the stored bytes are compared here, token by token, with the *)
(*    concatenation of the chunks (ByteExact), and foreign bytes cannot match  *)
(*    (Isolation);                                                             *)
(*  - `e2e` records come from real child processes; byte-string equality of    *)
(*    large or binary outputs is computed by the harness and asserted here.    *)
EXTENDS Integers, Sequences, FiniteSets, TLC, Json, IOUtils

Rec == ndJsonDeserialize(IOEnv.TRACE)
RangeOf(s) == { s[i] : i \in DOMAIN s }
RECURSIVE Flat(_)
Flat(ss) == IF ss = <<>> THEN <<>> ELSE Head(ss) \o Flat(Tail(ss))

CaptureWhys(r) ==
  IF ~r.ok THEN {"C08:the capture pipeline failed"}
  ELSE IF Len(r.files) # Len(r.streams) THEN {"C08:missing log file"}
  ELSE { "C08:stored log differs from the bytes written to the stream" :
           i \in { j \in DOMAIN r.streams : r.files[j] # Flat(r.streams[j].chunks) \/ ~r.bytes_equal[j] } }

E2EWhys(r) ==
  { "C08:stored log differs from the bytes the process wrote" : t \in { x \in RangeOf(r.tasks) : x.ran /\ ~x.stored_equal } }
  \cup { "C08:stored log contains output of another task" : t \in { x \in RangeOf(r.tasks) : x.foreign } }
  \cup { "C08:log show does not print header + exactly the stored bytes" : t \in { x \in RangeOf(r.tasks) : x.ran /\ x.shown /\ ~x.show_equal } }
  \cup { "C08:log show with filters prints a log the filters exclude or omits an admitted one" : t \in { x \in RangeOf(r.tasks) : x.ran /\ ~x.filters_ok } }
  \cup (IF r.rc # r.want_rc THEN {"C08:harness: run ended unexpectedly"} ELSE {})

Whys(r) == CASE r.ev = "capture" -> CaptureWhys(r)
             [] r.ev = "e2e"     -> E2EWhys(r)
             [] OTHER            -> {"unknown record kind"}
VARIABLE l
Init == l = 1
Next == /\ l <= Len(Rec)
        /\ \A w \in Whys(Rec[l]) : PrintT(<<"FAIL", ToJson([i |-> l, why |-> w])>>)
        /\ l' = l + 1
Spec == Init /\ [][Next]_l
Done == l = Len(Rec) + 1 => PrintT(<<"DONE", Len(Rec)>>)
=============================================================================
