---------------------------- MODULE MonorailTrace ----------------------------
(* Trace validation of FREE-RUNNING concurrent invocations against the         *)
(* composed specification (Monorail.tla).  Several real `monorail` processes   *)
(* (run, checkpoint update, checkpoint delete, out delete) are started on one  *)
(* repository with small random offsets and nobody holds them anywhere; every  *)
(* process writes its hook events (guarded build) with a system-wide monotonic *)
(* stamp, the driver adds `start`, `kill` and `exit` events, and the merged,   *)
(* stamp-ordered event list is the trace.                                      *)
(*                                                                             *)
(* One trace event = one action of Monorail.tla, bound to the logged fields.   *)
(* Two steps have no event of their own at the instant they really happen and  *)
(* are therefore SILENT steps the trace relation may take between events:      *)
(*   TryLock(p)  the bind itself: `lock.acquired` is stamped a little after    *)
(*               it, a loser only shows up as an `exit` with a lock error      *)
(*   Finish(p)   the release at process exit: `lock.releasing` is stamped a    *)
(*               little before it, the driver's `exit` stamp well after it     *)
(* TLC searches for an interleaving of the silent steps that explains the      *)
(* events (acceptance = the invariant NotAccepted is violated, i.e. a state    *)
(* that has consumed the whole trace and agrees with the out directory the     *)
(* driver projected at the end is reachable).  If two invocations really were  *)
(* past lock acquisition at once, or a contender got in while the holder was   *)
(* still alive, no interleaving exists: the trace is rejected.                 *)
(*                                                                             *)
(* Beyond the listed properties: concurrent READERS.  `result show` processes  *)
(* run next to the mutating ones and take no lock; the driver logs `start` and *)
(* `shown` (reaped: what it answered).  The read itself is a third silent step *)
(* (ReadNow) somewhere in between: the answer must be the pointer's slot with  *)
(* its result stored AS OF SOME INSTANT of the behaviour, or "nothing" if      *)
(* there was none then - a reader never sees a slot half-way (drift note only).*)
(* `analyze` readers likewise: checkpointed or not and the changed targets as  *)
(* of one instant (the work tree does not change while invocations run), or an *)
(* error exactly while the checkpoint file is torn.  `checkpoint show` readers: *)
(* the checkpoint some update wrote, whole, as of one instant - or an error    *)
(* while there is none or the file is being rewritten.                         *)
EXTENDS Monorail, Json, IOUtils

Tr == ndJsonDeserialize(IOEnv.TRACE)
MCCfg == [targets |-> << [path |-> <<"a">>, uses |-> <<>>, ignores |-> <<>>],
                         [path |-> <<"b">>, uses |-> << <<"a", "f">> >>, ignores |-> <<>>],
                         [path |-> <<"c">>, uses |-> <<>>, ignores |-> <<>>] >>]
MCComp == [p \in {"af", "bf", "cf"} |-> CASE p = "af" -> <<"a", "f">> [] p = "bf" -> <<"b", "f">> [] OTHER -> <<"c", "f">>]

CONSTANT PrefixN
VARIABLES l, doomed,         \* doomed: invocations the driver has sent SIGKILL to (they die at some instant after that)
          view                \* view[p]: what reader p saw at its (silent) read instant ([k |-> "none"]: not yet)
tvars == <<vars, l, doomed, view>>
Ev == Tr[l]
Is(e) == l <= Len(Tr) /\ Ev.e = e
NoView == [k |-> "none"]
Consume == l' = l + 1 /\ UNCHANGED <<doomed, view>>

\* checkpoint update: the repository read and the truncation have one hook between them and the next (cp.truncated)
CpReadTruncate(p) ==
  /\ inv[p].pc = "held" /\ inv[p].api = "cp_update" /\ cpfile = "ok"
  /\ inv' = [inv EXCEPT ![p] = [@ EXCEPT !.pc = "cpwrite", !.ncp = CpUpdate(repo, 0, TRUE).cp]]
  /\ cpfile' = "torn" /\ actor' = p /\ UNCHANGED <<repo, store, holder, nruns, nedits, obs>>

\* lock.releasing: the last hook point.  For the two single-step APIs it is the first event after the state change; on
\* an error path it is the first event after the failing step; otherwise the invocation is already `done`.
AtReleasing(p) ==
  \/ inv[p].pc = "done" /\ UNCHANGED vars
  \/ inv[p].pc = "held" /\ inv[p].api = "cp_delete" /\ CpDeleteStep(p)
  \/ inv[p].pc = "held" /\ inv[p].api = "out_delete" /\ OutDeleteStep(p)
  \/ inv[p].pc = "held" /\ inv[p].api = "run" /\ ~CanStart(store) /\ RunChoose(p)
  \/ inv[p].pc = "read" /\ cpfile # "ok" /\ RunReadRepo(p)
  \/ inv[p].pc = "held" /\ inv[p].api = "cp_update" /\ cpfile # "ok" /\ CpRead(p)

Event ==
  LET p == Ev.p IN
  \/ Is("start") /\ Start(p, Ev.api) /\ Consume
  \/ Is("acquired") /\ inv[p].pc = "held" /\ UNCHANGED vars /\ Consume
  \/ Is("id_chosen") /\ CanStart(store) /\ RunChoose(p) /\ inv'[p].k = Ev.k /\ Consume
  \/ Is("slot_removed") /\ inv[p].pc = "effects" /\ Effs[inv[p].e] = "wipe" /\ RunEffect(p) /\ Consume
  \/ Is("slot_created") /\ inv[p].pc = "effects" /\ Effs[inv[p].e] = "mkdir" /\ RunEffect(p) /\ Consume
  \* (what the run is about to cover is remembered until it exits: its result document must list exactly these targets)
  \/ Is("planned") /\ cpfile = "ok" /\ RunReadRepo(p)
                   /\ view' = [view EXCEPT ![p] = [k |-> "ran", targets |-> AffectedNow]] /\ l' = l + 1 /\ UNCHANGED doomed
  \/ Is("executed") /\ inv[p].pc = "effects" /\ Effs[inv[p].e] = "logs" /\ RunEffect(p) /\ Consume
  \/ Is("result_stored") /\ inv[p].pc = "effects" /\ Effs[inv[p].e] = "result" /\ RunEffect(p) /\ Consume
  \/ Is("ptr_renamed") /\ inv[p].pc = "effects" /\ Effs[inv[p].e] = "ptrwrite" /\ RunEffect(p) /\ Consume
  \/ Is("cp_truncated") /\ CpReadTruncate(p) /\ Consume
  \/ Is("cp_written") /\ CpWrite(p) /\ Consume
  \/ Is("releasing") /\ AtReleasing(p) /\ Consume
  \* environment (the driver edits and commits only while no invocation is running)
  \/ Is("edit") /\ EnvEdit(Ev.path, Ev.c) /\ Consume
  \/ Is("commit") /\ EnvCommitAll /\ Consume
  \* SIGKILL sent: from now on the invocation may die at any instant (silent); `reaped` = the driver has seen it dead
  \/ Is("kill_sent") /\ doomed' = doomed \cup {p} /\ l' = l + 1 /\ UNCHANGED <<vars, view>>
  \* a reader has answered: what it answered is what it saw at its read instant
  \/ Is("shown") /\ view[p] = [k |-> "slot", v |-> IF Ev.ok THEN Ev.slot ELSE 0] /\ ResultShow(p)
                 /\ view' = [view EXCEPT ![p] = NoView] /\ l' = l + 1 /\ UNCHANGED doomed
  \* `analyze` has answered: checkpointed or not and the changed targets, or an error (unreadable checkpoint)
  \/ Is("answered") /\ view[p] = (IF Ev.ok THEN [k |-> "ana", set |-> Ev.checkpointed, targets |-> { Ev.targets[i] : i \in DOMAIN Ev.targets }]
                                             ELSE [k |-> "ana_err"])
                    /\ Analyze(p) /\ view' = [view EXCEPT ![p] = NoView] /\ l' = l + 1 /\ UNCHANGED doomed
  \* `checkpoint show` has answered: the stored checkpoint (commit, pending checksums) or an error (none / being rewritten)
  \/ Is("cp_shown") /\ view[p] = (IF Ev.ok THEN [k |-> "cp", id |-> Ev.id, pend |-> Ev.pend] ELSE [k |-> "cp_err"])
                    /\ CpShow(p) /\ view' = [view EXCEPT ![p] = NoView] /\ l' = l + 1 /\ UNCHANGED doomed
  \/ Is("reaped") /\ inv[p] = Idle /\ UNCHANGED vars /\ view' = [view EXCEPT ![p] = NoView] /\ l' = l + 1 /\ UNCHANGED doomed
  \* exit: whoever got the lock has finished (silent Finish); whoever did not has lost (silent TryLock) with a lock error
  \/ Is("exit") /\ inv[p] = Idle /\ UNCHANGED vars
                /\ (("ran" \in DOMAIN Ev /\ view[p].k = "ran") => view[p].targets = { Ev.ran[i] : i \in DOMAIN Ev.ran })
                /\ view' = [view EXCEPT ![p] = NoView] /\ l' = l + 1 /\ UNCHANGED doomed
Die(p) == /\ p \in doomed /\ inv[p] # Idle
          /\ IF inv[p].pc \in PastLock THEN Crash(p)
             ELSE inv' = [inv EXCEPT ![p] = Idle] /\ UNCHANGED <<repo, store, cpfile, holder, nruns, nedits, actor, obs>>
ReadNow(p) == /\ inv[p].pc = "start" /\ inv[p].api \in Readers /\ view[p] = NoView
              /\ view' = [view EXCEPT ![p] =
                    IF inv[p].api = "result_show" THEN [k |-> "slot", v |-> IF ResultShows(store, N) # 0 THEN store.ptr ELSE 0]
                    ELSE IF inv[p].api = "cp_show" THEN (IF cpfile = "torn" \/ ~repo.cp.set THEN [k |-> "cp_err"]
                                                         ELSE [k |-> "cp", id |-> repo.cp.id, pend |-> repo.cp.pend])
                    ELSE IF cpfile = "torn" THEN [k |-> "ana_err"]
                    ELSE [k |-> "ana", set |-> repo.cp.set, targets |-> AffectedNow]]
              /\ UNCHANGED <<vars, l, doomed>>
Silent == \E p \in Procs : \/ ((TryLock(p) \/ Finish(p) \/ Die(p)) /\ UNCHANGED <<l, doomed, view>>)
                            \/ ReadNow(p)
TNext == Event \/ Silent
TSpec == Init /\ l = 1 /\ doomed = {} /\ view = [p \in Procs |-> NoView] /\ [][TNext]_tvars

\* a loser must have left with a lock error, a winner not: checked on the trace itself (constant-level)
Losers == { i \in DOMAIN Tr : Tr[i].e = "exit" /\ Tr[i].lockerr }
ASSUME \A i \in Losers : ~\E j \in DOMAIN Tr : Tr[j].e = "acquired" /\ Tr[j].p = Tr[i].p

\* the out directory as the driver found it at the end (pointer, slot stages, checkpoint)
Final == Tr[Len(Tr)].final
StageOf(s) == IF s.stage \in {"dir", "logs"} THEN "open" ELSE s.stage
FinalAgrees ==
  /\ store.ptr = Final.ptr
  /\ \A k \in 1..N : StageOf(store.slot[k]) = Final.slots[k]
  /\ cpfile = (IF Final.cpkind = "torn" THEN "torn" ELSE "ok")
  /\ (Final.cpkind = "absent" => ~repo.cp.set)
  /\ (Final.cpkind = "ok" => repo.cp.set /\ repo.cp.id = Final.cp.id /\ repo.cp.pend = Final.cp.pend)
Accepted == l = Len(Tr) /\ Tr[l].e = "final" /\ (\A p \in Procs : inv[p] = Idle) /\ FinalAgrees
NotAccepted == ~Accepted
\* how far the trace could be explained (for reporting): prefix k is explainable iff this invariant is violated
NotReached == l <= PrefixN
=============================================================================
