---------------------------- MODULE RunImplTrace ----------------------------
(* Trace validation of the INTERNAL steps of `process_plan` against RunImpl:   *)
(* the guarded program points of src/app/run.rs (group begin, schedule-time    *)
(* failure, group scheduled, each join, group joined, each shutdown send,      *)
(* group end) are recorded with per-process sequence numbers, and TLC searches  *)
(* for a behaviour of RunImpl that emits exactly this sequence of logged steps  *)
(* and ends with the recorded result document, inferring the steps that are     *)
(* not logged (non-failing Sched, ChildExit, compressor ThreadRecv, a skipped   *)
(* command).  If no such behaviour exists the implementation no longer follows  *)
(* the model (MODEL-DRIFT): TLC's exhaustive exploration of RunImpl's           *)
(* interleavings then stops speaking about the code.  It is reported in the     *)
(* evidence, never as a property violation.                                     *)
(*                                                                             *)
(* Acceptance is reachability: the "invariant" NotAccepted is VIOLATED exactly  *)
(* when some behaviour explains the whole trace.                                *)
EXTENDS RunImpl, Json, IOUtils, SequencesExt

Rec == ndJsonDeserialize(IOEnv.TRACE)
RangeOf(s) == { s[i] : i \in DOMAIN s }
P == Rec[1]
TraceReq == RangeOf(P.req)
TracePlan ==
  [ncmd |-> P.ncmd, req |-> TraceReq,
   dep |-> { <<d[1], d[2]>> : d \in RangeOf(P.dep) },
   kind |-> [k \in (1..P.ncmd) \X TraceReq |-> (CHOOSE x \in RangeOf(P.kinds) : x[1] = k[1] /\ x[2] = k[2])[3]],
   fou |-> P.fou, mode |-> P.mode,
   groups |-> [i \in DOMAIN P.groups |-> RangeOf(P.groups[i])]]
TracePlanSet == {TracePlan}

VARIABLE l
tvars == <<vars, l>>
Ev == Rec[l]
Logged(e) == l <= Len(Rec) /\ Ev.ev = e /\ l' = l + 1
Silent == UNCHANGED l

TInit == Init /\ l = 2
TNext ==
  \/ BeginCmd /\ Silent                                   \* command start (or a whole command skipped) is not logged
  \/ Logged("group_begin") /\ phase = "sched" /\ sched = {} /\ UNCHANGED vars
  \/ \E t \in plan.req : Sched(t) /\
        IF ~failed /\ failed' THEN Logged("sched_failed") /\ Ev.t = t ELSE Silent
  \/ SchedDone /\ Logged("group_scheduled")
  \/ \E k \in Task, ok \in BOOLEAN : ChildExit(k, ok) /\ Silent
  \/ \E k \in Task : Join(k) /\ Logged("join_next")
  \/ JoinDone /\ Logged("group_joined")
  \/ SendShutdown /\ Logged("shutdown_send")
  \/ \E k \in 1..NThreads : ThreadRecv(k) /\ Silent
  \/ GroupEnd /\ Logged("group_end")
  \/ Finish /\ Logged("finish")
TSpec == TInit /\ [][TNext]_tvars

StatusOf(k) == CASE res[k] \in {"error_code", "error_nocode"} -> "error" [] OTHER -> res[k]
Accepted == /\ l = Len(Rec) + 1 /\ phase = "done"
            /\ LET f == Rec[Len(Rec)] IN
               /\ f.failed = failed /\ f.rc = exitcode
               /\ \A x \in RangeOf(f.statuses) : StatusOf(<<x[1], x[2]>>) = x[3]
NotAccepted == ~Accepted
=============================================================================
