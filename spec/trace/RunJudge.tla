------------------------------ MODULE RunJudge ------------------------------
(* Judges one recorded `monorail run` per step against RunRules (C04, C05,    *)
(* C06, C16): which targets were covered, how they were grouped, when each    *)
(* child process started and ended (helper events ordered by monotonic stamp, *)
(* inner intervals), what the result document and exit status claim.          *)
(* Dependencies and the requested set are computed here from the recorded     *)
(* configuration (Targets.tla, Dag.tla); the implementation's own idea of     *)
(* them is never trusted.                                                     *)
EXTENDS RunRules, Targets, Dag, Plan, Sequences, SequencesExt, Json, IOUtils

Rec == ndJsonDeserialize(IOEnv.TRACE)

\* wide plans (hundreds of targets in one group): the dependency oracle over the configuration is not affordable in
\* TLC, so the grouping `analyze --target-groups` printed is taken as the plan's grouping (its validity is C03's
\* business, judged there) and everything else - coverage, order of groups and commands, truthfulness - is judged
Trusting(r) == "trust" \in DOMAIN r /\ r.trust
DepAdjOf(r) == IF Trusting(r) THEN [t \in TPaths(r.cfg) |-> {}] ELSE DepAdj(r.cfg)
DepPairsOf(r) == IF Trusting(r) THEN {} ELSE DepPairs(r.cfg)
Req(r) == LET a == DepAdjOf(r) IN
          CASE r.mode \in {"changed", "all"} -> RangeOf(r.pre.targets)
            [] r.mode = "targets"            -> RangeOf(r.named)
            [] r.mode = "targets_deps"       -> Closure(a, RangeOf(r.named))
IsGraph(r) == r.mode # "targets"

CmdGroups(r, c) == r.doc.results[c]           \* sequence of groups; a group is a sequence of entries [t, status, code]
GroupTargets(grp) == [ i \in DOMAIN grp |-> grp[i].t ]
GroupSetSeq(GG) == [ i \in DOMAIN GG |-> RangeOf(GroupTargets(GG[i])) ]
NoDup(s) == Cardinality(RangeOf(s)) = Len(s)

DocShapeWhy(r) ==
  LET req == Req(r)  a == DepAdjOf(r) IN
  IF ~r.doc.ok THEN "C06:run ended without a result document (fatal error)"
  ELSE IF Len(r.doc.results) # r.ncmd THEN "C05:result document does not list every command once"
  ELSE IF "names_ok" \in DOMAIN r.doc /\ ~r.doc.names_ok THEN "C05:result document does not name the commands in the order they were given"
  ELSE LET badc(c) ==
             LET Gs == CmdGroups(r, c)
                 all == [ i \in DOMAIN Gs |-> GroupTargets(Gs[i]) ]
                 sets == GroupSetSeq(Gs)
             IN IF \E i \in DOMAIN all : ~NoDup(all[i]) THEN "C05:target listed twice in a group"
                ELSE IF \E i, j \in DOMAIN sets : i # j /\ sets[i] \cap sets[j] # {} THEN "C05:target listed in two groups"
                ELSE IF UNION { sets[i] : i \in DOMAIN sets } # req THEN "C05:run does not cover exactly the selected targets"
                ELSE IF IsGraph(r) /\ ~Trusting(r) /\ ~ValidLayering(a, req, sets) THEN "C05:run groups are not a dependency layering"
                ELSE IF r.mode \in {"changed", "all"} /\ sets # [ i \in DOMAIN r.pre.groups |-> RangeOf(r.pre.groups[i]) ]
                     THEN "C05:run groups differ from analyze --target-groups"
                ELSE IF r.mode = "targets" /\ \E i \in DOMAIN sets : Cardinality(sets[i]) # 1 THEN "C05:explicit targets not run one at a time"
                ELSE ""
           S == { badc(c) : c \in 1..r.ncmd } \ {""}
       IN IF S = {} THEN "" ELSE CHOOSE w \in S : TRUE

KindOf(r, k) == LET S == { x \in RangeOf(r.kinds) : x[1] = k[1] /\ x[2] = k[2] } IN
                IF S = {} THEN "undef" ELSE (CHOOSE x \in S : TRUE)[3]
PlanOf(r) ==
  LET req == Req(r) IN
  [ncmd |-> r.ncmd, req |-> req, dep |-> DepPairsOf(r),
   kind |-> [k \in (1..r.ncmd) \X req |-> KindOf(r, k)], fou |-> r.fou,
   mode |-> IF IsGraph(r) THEN "graph" ELSE "serial",
   gidx |-> [c \in 1..r.ncmd |-> [t \in req |->
               CHOOSE i \in DOMAIN CmdGroups(r, c) : t \in RangeOf(GroupTargets(CmdGroups(r, c)[i]))]]]
DocOf(r, pl) ==
  [k \in Tasks(pl) |-> LET grp == CmdGroups(r, k[1])[pl.gidx[k[1]][k[2]]]
                           e == CHOOSE x \in RangeOf(grp) : x.t = k[2]
                       IN [status |-> e.status, code |-> e.code]]

\* fold of the rules over the recorded process events
Step(pl, useG, acc, e) ==
  IF acc.why # "" THEN acc
  ELSE LET k == <<e.c, e.t>>  i == acc.i + 1 IN
    CASE e.k = "start" -> LET w == StartWhyG(pl, acc.st, e.c, e.t, useG) IN
                          IF w = "" THEN [acc EXCEPT !.st = ApplyStart(acc.st, k), !.i = i]
                          ELSE [acc EXCEPT !.why = w, !.i = i]
      [] e.k = "end"   -> IF EndOK(acc.st, k) THEN [acc EXCEPT !.st = ApplyEnd(acc.st, k, e.code), !.i = i]
                          ELSE [acc EXCEPT !.why = "C05:process end without a matching start", !.i = i]
      [] e.k = "barrier_timeout" -> [acc EXCEPT !.why = "C16:a group member waited in vain for the other members to start", !.i = i]
      [] OTHER         -> [acc EXCEPT !.i = i]
Fold(pl, useG, evs) == FoldLeft(LAMBDA a, e : Step(pl, useG, a, e), [st |-> St0, why |-> "", i |-> 0], evs)

\* the plan as far as it can be known without a usable result document
BasicPlanOf(r) ==
  LET req == Req(r) IN
  [ncmd |-> r.ncmd, req |-> req, dep |-> DepPairsOf(r),
   kind |-> [k \in (1..r.ncmd) \X req |-> KindOf(r, k)], fou |-> r.fou,
   mode |-> IF IsGraph(r) THEN "graph" ELSE "serial"]

\* the set of reasons for which the specification cannot explain the recorded run ({} = accepted)
RunWhys(r) ==
  LET ds == DocShapeWhy(r)
      a  == DepAdjOf(r)
      V  == IF r.mode = "targets_deps" THEN Closure(a, RangeOf(r.named)) ELSE TPaths(r.cfg)
  IN
  IF "interrupted" \in DOMAIN r /\ r.interrupted
  THEN \* monorail itself was sent a termination signal: there may be no result document at all; what was started, and
       \* when, is still bound by the rules that need no grouping (dependencies, command order, one start per task)
       LET acc == Fold(BasicPlanOf(r), FALSE, r.events) IN {acc.why} \ {""}
  ELSE IF r.doc.ok /\ r.mode # "targets" /\ ~Trusting(r) /\ Cyclic(a, V) THEN {"C09:run executed a cyclic configuration"}
  ELSE IF ds # ""
  THEN LET bp  == BasicPlanOf(r)
           acc == Fold(bp, FALSE, r.events)
           \* the entries that ARE listed for planned pairs must still be truthful about their own process
           listed(c) == { x \in UNION { RangeOf(g) : g \in RangeOf(r.doc.results[c]) } : x.t \in bp.req }
           ent == IF ~r.doc.ok \/ acc.why # "" THEN {}
                  ELSE UNION { { EntryWhy(bp, acc.st, <<c, e.t>>, e) : e \in listed(c) } :
                                 c \in (DOMAIN r.doc.results) \cap (1..r.ncmd) }
       IN {ds} \cup ({acc.why} \ {""}) \cup (ent \ {""})
  ELSE LET pl  == PlanOf(r)
           acc == Fold(pl, TRUE, r.events)
       IN IF acc.why # "" THEN {acc.why}
          ELSE FinishWhys(pl, acc.st, DocOf(r, pl), r.doc.failed, r.rc)

\* C09 at the CLI: a cyclic configuration must be rejected with a graph error and nothing may run
RejectWhy(r) ==
  LET a == DepAdj(r.cfg)
      V == IF r.mode = "targets_deps" THEN Closure(a, RangeOf(r.named)) ELSE TPaths(r.cfg)
  IN IF ~Cyclic(a, V) THEN (IF Cyclic(a, TPaths(r.cfg)) THEN "" ELSE "C03:run rejected an acyclic configuration")
     ELSE IF r.rc = 0 \/ r.err # "graph" THEN "C09:cyclic configuration not rejected with a graph error"
     ELSE IF Len(r.events) # 0 THEN "C09:an executable was started for a cyclic configuration"
     ELSE ""

\* C11: what one started executable observed (argv, cwd, its own path) against Plan.tla
ArgvWhy(r) ==
  LET named == { <<x[1], x[2]>> : x \in RangeOf(r.named) }
      want  == Argv(r.base, named, r.requested, r.args, r.nobase)
  IN IF "defmissing" \in DOMAIN r /\ r.defmissing
     THEN \* the configured definition path is THE executable: when it does not exist, nothing else may be started instead
          (IF r.observed.started # 0 THEN "C11:another executable was started although the configured definition path does not exist" ELSE "")
     ELSE IF r.observed.started # 1 THEN "C11:executable not started exactly once"
     ELSE IF r.observed.argv # want THEN "C11:argument list differs from base ++ requested argmaps ++ args"
     ELSE IF r.observed.cwd # r.target THEN "C11:working directory is not the target directory"
     ELSE IF ~ResolveOK(r.defpath, r.hasdef, RangeOf(r.candidates), r.cmd, r.observed.exe) THEN "C11:wrong executable resolved"
     ELSE ""

\* beyond the list: one target's `target show --commands` / `--argmaps` listing against Plan.tla (drift note only)
ShowWhys(r) ==
  LET defs  == RangeOf(r.defs)
      cands == RangeOf(r.candidates)
      shown == RangeOf(r.shown)
      perm(p) == IF \E x \in RangeOf(r.perms) : x.path = p THEN (CHOOSE x \in RangeOf(r.perms) : x.path = p).perm ELSE ""
  IN (IF { x.name : x \in shown } # ShownNames(defs, cands) THEN {"SHOW:listed names differ from definitions plus directory files"} ELSE {})
     \cup (IF \E x \in shown : ~ShownPathOK(defs, cands, x.name, x.path) THEN {"SHOW:a listed name shows the wrong file"} ELSE {})
     \cup (IF \E x \in shown : x.perm # perm(x.path) THEN {"SHOW:permissions shown differ from the file's mode"} ELSE {})

Whys(r) == CASE r.ev = "run"    -> RunWhys(r)
             [] r.ev = "show"   -> ShowWhys(r)
             [] r.ev = "argv"   -> {ArgvWhy(r)} \ {""}
             [] r.ev = "reject" -> {RejectWhy(r)} \ {""}
             [] OTHER           -> {"unknown record kind"}

VARIABLE l
Init == l = 1
Next == /\ l <= Len(Rec)
        /\ LET w == Whys(Rec[l]) IN
             IF w = {} THEN TRUE ELSE PrintT(<<"FAIL", ToJson([i |-> l, why |-> SetToSeq(w)])>>)
        /\ l' = l + 1
Spec == Init /\ [][Next]_l
Done == l = Len(Rec) + 1 => PrintT(<<"DONE", Len(Rec)>>)
=============================================================================
