---------------------------- MODULE StoreImplTrace ----------------------------
(* Trace validation of the ORDER of a run's filesystem effects against Store:   *)
(* the guarded points around slot set-up, execution, the result file and the    *)
(* run pointer are recorded for a real, completed `run`, and the specification  *)
(* must be able to perform its effect sequence Effects(TRUE) = wipe, mkdir,     *)
(* logs, result, ptrwrite in the recorded order (each point is the moment right *)
(* after one effect; points that mark no effect are stuttering steps).  A       *)
(* mismatch - e.g. the pointer saved before the result - means the code no      *)
(* longer follows the model on which the crash analysis (C13) was done: it is   *)
(* reported as MODEL-DRIFT in the evidence.                                     *)
EXTENDS Store, TLC, Json, IOUtils
Rec == ndJsonDeserialize(IOEnv.TRACE)
Effs == Effects(TRUE)
\* which effect each guarded point follows ("" = none)
EffectOf(p) == CASE p = "run.slot_removed"   -> "wipe"
                 [] p = "run.slot_created"   -> "mkdir"
                 [] p = "run.executed"       -> "logs"
                 [] p = "run.result_stored"  -> "result"
                 [] p = "ptr.renamed"        -> "ptrwrite"
                 [] OTHER                    -> ""
VARIABLES l, pc, st
vars == <<l, pc, st>>
Init == l = 1 /\ pc = 1 /\ st = Store0(3)
Next == /\ l <= Len(Rec)
        /\ LET e == EffectOf(Rec[l].point) IN
           IF e = "" THEN UNCHANGED <<pc, st>>
           ELSE /\ pc <= Len(Effs) /\ Effs[pc] = e          \* the next effect of the specification, nothing else
                /\ st' = Apply(st, e, 1, 1) /\ pc' = pc + 1
        /\ l' = l + 1
Spec == Init /\ [][Next]_vars
Accepted == l = Len(Rec) + 1 /\ pc = Len(Effs) + 1 /\ st.last = 1
NotAccepted == ~Accepted
=============================================================================
