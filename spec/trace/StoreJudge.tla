------------------------------ MODULE StoreJudge ------------------------------
(* Trace validation of run histories (completed, aborted, crashed and killed    *)
(* invocations, with observations in between) against Store.tla: C12, C13.      *)
(* The specification state follows the recorded invocations (which effects the  *)
(* invocation got to perform is known from the guarded crash point or from the  *)
(* way it ended); every observation must be what the specification allows.      *)
EXTENDS Store, TLC, Json, IOUtils, SequencesExt

Rec == ndJsonDeserialize(IOEnv.TRACE)
RangeOf(s) == { s[i] : i \in DOMAIN s }
Effs == Effects(TRUE)          \* the property-level design: the pointer is replaced atomically

VARIABLES l, st, N, crashed, runs, beh
\* crashed: an invocation has crashed since the last completed run; runs: [run number -> slot] of completed runs
vars == <<l, st, N, crashed, runs, beh>>
Init == l = 1 /\ st = Store0(1) /\ N = 1 /\ crashed = FALSE /\ runs = <<>> /\ beh = 0

Fail(why) == PrintT(<<"FAIL", ToJson([i |-> l, beh |-> beh, why |-> why])>>)
Check(S) == \A w \in S : Fail(w)
Tag == IF crashed THEN "C13:" ELSE "C12:"

RunStep(r) ==
  LET k  == NextSlot(st, N)
      n  == IF r.kind = "complete" THEN Len(Effs) ELSE IF r.kind = "abort" THEN 2 ELSE r.n_effects
      s2 == ApplyPrefix(st, Effs, n, k, r.r)
  IN /\ Check((IF r.kind = "complete" /\ ~r.ok
               THEN {IF crashed THEN "C13:the run after a crash did not complete normally" ELSE "C12:a run did not complete"} ELSE {})
              \cup (IF r.kind = "complete" /\ r.ok /\ r.slot # k THEN {"C12:run used an unexpected slot"} ELSE {}))
     \* an invocation that was meant to complete but did not leaves the specification state where it was
     /\ st' = (IF r.kind = "complete" /\ ~r.ok THEN st ELSE s2)
     \* (an invocation killed after its last effect has completed as far as the store goes, but what is observed next is
     \* still "after a crash": C13)
     /\ crashed' = (IF r.kind = "complete" /\ ~r.ok THEN crashed
                    ELSE IF r.kind = "crash" THEN TRUE
                    ELSE IF n = Len(Effs) THEN FALSE ELSE crashed)
     /\ runs' = (IF n = Len(Effs) /\ ~(r.kind = "complete" /\ ~r.ok) THEN (r.r :> k) @@ runs ELSE runs)
     /\ UNCHANGED <<N, beh>>

\* the runs whose logs slot k may show: exactly the run that last set the slot up
SlotRun(k) == IF k \in 1..N /\ st.slot[k].stage # "absent" THEN st.slot[k].run ELSE 0

ObsWhys(r) ==
  CASE r.ev = "result_show" ->
         IF st.last = 0 THEN (IF r.rc = 0 THEN {Tag \o "result show succeeded although no run has completed"} ELSE {})
         ELSE (IF r.rc # 0 THEN {Tag \o "result show failed although a run has completed"} ELSE {})
              \cup (IF r.rc = 0 /\ r.run # st.last THEN {Tag \o "result show does not return the most recent completed run"} ELSE {})
              \cup (IF r.rc = 0 /\ r.run = st.last /\ ~r.same_doc THEN {Tag \o "result show differs from the document the run printed"} ELSE {})
    [] r.ev = "log_show" ->
         IF r.id = 0
         THEN IF st.last = 0 THEN (IF r.rc = 0 THEN {Tag \o "log show succeeded although no run has completed"} ELSE {})
              ELSE (IF r.rc # 0 \/ RangeOf(r.runs) # {st.last} \/ ~r.complete
                    THEN {Tag \o "log show does not show exactly the most recent completed run's logs"} ELSE {})
         ELSE LET want == SlotRun(r.id)
                  isCompleted == want # 0 /\ st.slot[r.id].stage = "result"
              IN (IF RangeOf(r.runs) \ {want} # {} THEN {Tag \o "log show --id shows output left over from another run"} ELSE {})
                 \cup (IF isCompleted /\ (r.rc # 0 \/ RangeOf(r.runs) # {want} \/ ~r.complete)
                       THEN {Tag \o "log show --id does not show a retained run's logs"} ELSE {})
    [] r.ev = "ls_runs" ->
         (IF ~(RangeOf(r.dirs) \subseteq 1..N) \/ Len(r.dirs) > N THEN {"C12:more run directories than max_retained_runs"} ELSE {})
         \cup (IF { k \in 1..N : st.slot[k].stage # "absent" } # RangeOf(r.dirs) THEN {Tag \o "run directories differ from the slots in use"} ELSE {})
    [] r.ev = "cp_same" -> (IF ~r.same THEN {"C13:the checkpoint changed"} ELSE {})
    [] OTHER -> {"unknown event"}

Step(r) ==
  CASE r.ev = "reset" -> st' = Store0(r.n) /\ N' = r.n /\ crashed' = FALSE /\ runs' = <<>> /\ beh' = r.beh
    [] r.ev = "run"   -> RunStep(r)
    [] r.ev = "out_delete_all" -> /\ Check(IF r.rc # 0 THEN {Tag \o "out delete --all failed"} ELSE {})
                                  /\ st' = (IF r.rc = 0 THEN OutDeleteAll(st, N) ELSE st) /\ crashed' = FALSE /\ runs' = <<>>
                                  /\ UNCHANGED <<N, beh>>
    \* a reader while another invocation is in flight (readers take no lock): the last completed run must still be
    \* what result show / log show return - the in-flight run has not saved its pointer yet
    [] r.ev = "inflight_result_show" ->
          /\ LET tag == IF r.fault THEN "C13:" ELSE "C12:" IN
             \* (with a single slot the in-flight run has necessarily wiped the slot the pointer names: nothing is required)
             Check(IF N = 1 THEN {}
                   ELSE IF st.last = 0 THEN (IF r.rc = 0 THEN {tag \o "result show during a run returned a document although no run has completed"} ELSE {})
                   ELSE IF r.rc # 0 \/ r.run # st.last THEN {tag \o "result show during a run does not return the most recent completed run"} ELSE {})
          /\ UNCHANGED <<st, N, crashed, runs, beh>>
    [] OTHER          -> Check(ObsWhys(r)) /\ UNCHANGED <<st, N, crashed, runs, beh>>

Next == l <= Len(Rec) /\ Step(Rec[l]) /\ l' = l + 1
Spec == Init /\ [][Next]_vars
Done == l = Len(Rec) + 1 => PrintT(<<"DONE", Len(Rec)>>)
=============================================================================
