------------------------------ MODULE TailJudge ------------------------------
(* Judges recorded listener scenarios against Tail.tla's properties.            *)
(*  c15: the same run executed without a listener, with a live listener and     *)
(*       with a listener killed at a chosen point; the outcome projections      *)
(*       (exit status, failed flag, per-task status and code, digest of every   *)
(*       stored log) must be identical (NonInterference).                       *)
(*  c20: what a live listener printed, split by the harness at block headers;   *)
(*       per admitted (stream, target, command) the blocks must reassemble to   *)
(*       the stored log (Reassemble), nothing may appear outside a block        *)
(*       (WellFormed) or for a stream the filters exclude (Filters).            *)
EXTENDS Integers, Sequences, FiniteSets, SequencesExt, TLC, Json, IOUtils

Rec == ndJsonDeserialize(IOEnv.TRACE)
RangeOf(s) == { s[i] : i \in DOMAIN s }

Proj(o) == <<o.rc, o.failed, o.statuses, o.logs>>
C15Whys(r) ==
  LET base == r.outcomes[1] IN
  { "C15:the outcome of the run depends on the log listener (" \o r.outcomes[j].way \o ")" :
      j \in { i \in DOMAIN r.outcomes : Proj(r.outcomes[i]) # Proj(base) } }

Allowed(f, t) == /\ (IF t.stream = "stdout" THEN f.stdout ELSE f.stderr)
                 /\ (f.targets = <<>> \/ t.target \in RangeOf(f.targets))
                 /\ (f.commands = <<>> \/ t.cmd \in RangeOf(f.commands))
Key(x) == <<x.stream, x.target, x.cmd>>
BlocksOf(r, t) == SelectSeq(r.blocks, LAMBDA b : Key(b) = Key(t))
Reassembled(r, t) == FlattenSeq([ i \in DOMAIN BlocksOf(r, t) |-> BlocksOf(r, t)[i].lines ])
C20Whys(r) ==
  (IF ~r.preamble_ok THEN {"C20:the stream header is missing or malformed"} ELSE {})
  \cup (IF r.orphans > 0 THEN {"C20:output outside any header-introduced block"} ELSE {})
  \cup { "C20:block for a stream, target or command the filters do not admit" :
           b \in { x \in RangeOf(r.blocks) : ~\E t \in RangeOf(r.tasks) : Key(t) = Key(x) /\ Allowed(r.filter, t) } }
  \cup { "C20:blocks of a task do not reassemble to its stored log" :
           t \in { x \in RangeOf(r.tasks) : Allowed(r.filter, x) /\ Reassembled(r, x) # x.stored } }

Whys(r) == CASE r.ev = "c15" -> C15Whys(r)
             [] r.ev = "c20" -> C20Whys(r)
             [] OTHER        -> {"unknown record kind"}
VARIABLE l
Init == l = 1
Next == /\ l <= Len(Rec)
        /\ \A w \in Whys(Rec[l]) : PrintT(<<"FAIL", ToJson([i |-> l, why |-> w])>>)
        /\ l' = l + 1
Spec == Init /\ [][Next]_l
Done == l = Len(Rec) + 1 => PrintT(<<"DONE", Len(Rec)>>)
=============================================================================
