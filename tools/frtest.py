#!/usr/bin/env python3
"""Development-time: run only the session replay (lib/session.py) against a seeded change.
usage: sesstest.py <patch.diff> [n] [depth]"""
import json, os, shutil, subprocess, sys, collections
sys.path.insert(0, "/verif/lib")
patch = os.path.abspath(sys.argv[1]); n = int(sys.argv[2]) if len(sys.argv) > 2 else 40; depth = int(sys.argv[3]) if len(sys.argv) > 3 else 80
wt = "/tmp/wt-sess"
subprocess.run(["git", "-C", "/repo", "worktree", "remove", "--force", wt], capture_output=True)
subprocess.run(["git", "-C", "/repo", "worktree", "add", "-q", "--detach", wt, "HEAD"], check=True)
try:
    subprocess.run(["git", "apply", patch], cwd=wt, check=True)
    base = "/tmp/mh-wt-sess"; h = base + "/harness"
    if not os.path.exists(h):
        os.makedirs(base, exist_ok=True)
        shutil.copytree("/verif/harness", h, ignore=shutil.ignore_patterns("target"))
    shutil.rmtree(h + "/src"); shutil.copytree("/verif/harness/src", h + "/src")
    for f in ("Cargo.toml", "Cargo.lock"):
        shutil.copy("/verif/harness/" + f, h + "/" + f)
    t = open(h + "/Cargo.toml").read().replace('path = "/repo"', 'path = "%s"' % wt)
    open(h + "/Cargo.toml", "w").write(t)
    os.environ["VERIF_HARNESS"] = h
    import importlib, vlib, freerun
    importlib.reload(vlib)
    bins = vlib.build()
    class C:
        seed = 21; cov = {"traces_validated_against_impl": 0}; notes = []
        def model_violation(self, *a): raise SystemExit("model violation")
    import random, tempfile; tmp = tempfile.mkdtemp()
    recs = [freerun.scenario(bins, i, random.Random(777 + i)) for i in range(n)]
    rej = []
    for r in recs:
        ok, _ = freerun.validate(r, tmp)
        if not ok:
            k = freerun.explained_prefix(r, tmp); rej.append((r["idx"], k, freerun.classify(r, k), r["events"][k] if k < len(r["events"]) else None))
    print("traces", len(recs), "rejected", len(rej)); [print(" ", x) for x in rej[:5]]
    raise SystemExit(0)
    c = collections.Counter()
    first = {}
    for r in reps:
        for tag, why, i in r.mismatches:
            c[tag] += 1
            first.setdefault(tag, (why, r.hist[i]["a"], r.hist[i]["x"]))
    print("behaviours", len(reps), "mismatches", dict(c))
    for k, v in first.items():
        print(" ", k, v)
finally:
    subprocess.run(["git", "-C", "/repo", "worktree", "remove", "--force", wt], capture_output=True)
