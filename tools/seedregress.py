#!/usr/bin/env python3
"""Development-time (not registered in MANIFEST.json): re-run the final checks against every recorded seeded change.
For each /verif/seeded/<id>: apply patch.diff in a scratch worktree of /repo (outside /repo and /verif), point a private
copy of the harness at it, run the quick tier of the checks that are recorded as detecting it, and write the outcome to
<id>/recheck.json.  usage: seedregress.py <slot> <nslots> [id-prefix]   (slot-th share of the seeds, own worktree)"""
import json, os, shutil, subprocess, sys, time

slot, nslots = int(sys.argv[1]), int(sys.argv[2])
prefix = sys.argv[3] if len(sys.argv) > 3 else ""
seeds = sorted(d for d in os.listdir("/verif/seeded") if d.startswith(prefix) and os.path.exists("/verif/seeded/%s/patch.diff" % d))
mine = [s for i, s in enumerate(seeds) if i % nslots == slot]
rid = os.environ.get("RG_ID", str(slot))      # worktree / harness copy of this lane
wt = "/tmp/rg-%s" % rid
base = "/tmp/mh-rg-%s" % rid
h = base + "/harness"


def sh(cmd, cwd=None, env=None, timeout=3600):
    p = subprocess.run(cmd, cwd=cwd, env=env, stdout=subprocess.PIPE, stderr=subprocess.STDOUT, text=True, timeout=timeout)
    return p.returncode, p.stdout


sh(["git", "-C", "/repo", "worktree", "remove", "--force", wt])
rc, out = sh(["git", "-C", "/repo", "worktree", "add", "-q", "--detach", wt, "HEAD"])
if rc != 0:
    sys.exit("worktree: " + out)
try:
    os.makedirs(base, exist_ok=True)
    if os.path.exists(h):
        shutil.rmtree(h)
    shutil.copytree("/verif/harness", h, ignore=shutil.ignore_patterns("target"))
    t = open(h + "/Cargo.toml").read().replace('path = "/repo"', 'path = "%s"' % wt)
    open(h + "/Cargo.toml", "w").write(t)
    env = dict(os.environ, VERIF_HARNESS=h, VERIF_EVIDENCE=base + "/evidence", VERIF_REPLAYS=base + "/replays")
    for s in mine:
        d = "/verif/seeded/" + s
        outp = d + "/recheck.json"
        if os.path.exists(outp) and json.load(open(outp)).get("verif_commit") == os.environ.get("VERIF_COMMIT"):
            continue
        meta = json.load(open(d + "/meta.json"))
        checks = meta.get("detected_by") or [meta["breaks_property"]]
        sh(["git", "reset", "-q", "--hard", "HEAD"], cwd=wt)      # also clears a failed 3-way apply
        sh(["git", "clean", "-fdq", "-e", "target"], cwd=wt)
        rc, out = sh(["git", "apply", d + "/patch.diff"], cwd=wt)
        if rc != 0:
            rc, out = sh(["git", "apply", "-3", d + "/patch.diff"], cwd=wt)
        res = {"seed": s, "verif_commit": os.environ.get("VERIF_COMMIT"), "applies": rc == 0, "checks": {}}
        if rc == 0:
            for c in checks:
                t0 = time.time()
                rc2, out2 = sh(["/verif/check", c, "--tier", "quick"], cwd="/verif", env=env, timeout=2400)
                lines = [l for l in out2.splitlines() if l.startswith("VIOLATION") or l.startswith("violation [")]
                res["checks"][c] = {"exit": rc2, "wall_s": round(time.time() - t0, 1), "first_lines": lines[:2],
                                    "tail": out2[-300:] if rc2 not in (0, 1) else ""}
        else:
            res["note"] = "patch does not apply to the current tree: " + out[-200:]
        json.dump(res, open(outp, "w"), indent=1)
        print(s, res["applies"], {k: v["exit"] for k, v in res["checks"].items()}, flush=True)
finally:
    sh(["git", "-C", "/repo", "worktree", "remove", "--force", wt])
    shutil.rmtree(base, ignore_errors=True)
