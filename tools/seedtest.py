#!/usr/bin/env python3
"""Development-time runner (not registered in MANIFEST.json): for a seeded change
  1. apply it in its scratch worktree, build, run the repository's test suite, run the seed's demo (must fail),
  2. build a private copy of /verif/harness against that worktree and run the given checks (quick tier),
  3. restore the worktree and run the demo again (must pass).
usage: seedtest.py <worktree> <seed_dir> <out.json> <check-id>..."""
import json, os, re, shutil, subprocess, sys, time

def sh(cmd, cwd=None, env=None, timeout=3600):
    p = subprocess.run(cmd, cwd=cwd, env=env, stdout=subprocess.PIPE, stderr=subprocess.STDOUT, text=True, timeout=timeout, shell=isinstance(cmd, str))
    return p.returncode, p.stdout

def main():
    wt, seed, outp, checks = sys.argv[1], sys.argv[2], sys.argv[3], sys.argv[4:]
    res = {"worktree": wt, "seed": seed, "checks": {}}
    sh("git checkout -q -- .", cwd=wt)
    rc, out = sh(["git", "apply", os.path.join(seed, "patch.diff")], cwd=wt)
    res["apply_rc"] = rc
    if rc != 0:
        res["error"] = out[-500:]; json.dump(res, open(outp, "w"), indent=1); return
    rc, out = sh("cargo build --offline 2>&1 | tail -3", cwd=wt)
    res["build_ok"] = "Finished" in out
    # the suite binds the fixed default lock port; run it in a private network namespace
    rc, out = sh("unshare -rn sh -c 'ip link set lo up; cargo test --offline 2>&1' | grep -E '^test result' ", cwd=wt)
    res["tests"] = out.strip().splitlines()
    m = re.findall(r"(\d+) passed; (\d+) failed", out)
    res["tests_passed"] = sum(int(a) for a, b in m); res["tests_failed"] = sum(int(b) for a, b in m)
    rc, out = sh(["bash", os.path.join(seed, "demo.sh"), wt], cwd=seed, timeout=900)
    res["demo_with_change_rc"] = rc; res["demo_with_change_tail"] = out[-400:]
    # private harness
    base = "/tmp/mh-" + os.path.basename(wt.rstrip("/"))
    h = os.path.join(base, "harness")
    if not os.path.exists(h):
        os.makedirs(base, exist_ok=True)
        shutil.copytree("/verif/harness", h, ignore=shutil.ignore_patterns("target"))
    for f in ("Cargo.toml", "Cargo.lock"):
        shutil.copy(os.path.join("/verif/harness", f), os.path.join(h, f))
    shutil.rmtree(os.path.join(h, "src")); shutil.copytree("/verif/harness/src", os.path.join(h, "src"))
    t = open(os.path.join(h, "Cargo.toml")).read().replace('path = "/repo"', 'path = "%s"' % wt)
    open(os.path.join(h, "Cargo.toml"), "w").write(t)
    lock = open(os.path.join(h, "Cargo.lock")).read()
    env = dict(os.environ, VERIF_HARNESS=h, VERIF_EVIDENCE=os.path.join(base, "evidence"), VERIF_REPLAYS=os.path.join(base, "replays"))
    for c in checks:
        t0 = time.time()
        rc, out = sh(["/verif/check", c, "--tier", "quick"], cwd="/verif", env=env, timeout=1800)
        viol = [l for l in out.splitlines() if l.startswith("VIOLATION") or l.startswith("violation [")]
        res["checks"][c] = {"rc": rc, "wall_s": round(time.time() - t0, 1), "lines": viol[:8],
                            "tail": out[-300:] if rc not in (0, 1) else ""}
    sh("git checkout -q -- .", cwd=wt)
    rc, out = sh(["bash", os.path.join(seed, "demo.sh"), wt], cwd=seed, timeout=900)
    res["demo_clean_rc"] = rc; res["demo_clean_tail"] = out[-300:]
    json.dump(res, open(outp, "w"), indent=1)

main()
