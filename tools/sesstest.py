#!/usr/bin/env python3
"""Development-time: run only the session replay (lib/session.py) against a seeded change.
usage: sesstest.py <patch.diff> [n] [depth]"""
import json, os, shutil, subprocess, sys, collections
sys.path.insert(0, "/verif/lib")
patch = os.path.abspath(sys.argv[1]); n = int(sys.argv[2]) if len(sys.argv) > 2 else 40; depth = int(sys.argv[3]) if len(sys.argv) > 3 else 80
wt = "/tmp/wt-sess"
subprocess.run(["git", "-C", "/repo", "worktree", "remove", "--force", wt], capture_output=True)
subprocess.run(["git", "-C", "/repo", "worktree", "add", "-q", "--detach", wt, "HEAD"], check=True)
try:
    subprocess.run(["git", "apply", patch], cwd=wt, check=True)
    base = "/tmp/mh-wt-sess"; h = base + "/harness"
    if not os.path.exists(h):
        os.makedirs(base, exist_ok=True)
        shutil.copytree("/verif/harness", h, ignore=shutil.ignore_patterns("target"))
    shutil.rmtree(h + "/src"); shutil.copytree("/verif/harness/src", h + "/src")
    for f in ("Cargo.toml", "Cargo.lock"):
        shutil.copy("/verif/harness/" + f, h + "/" + f)
    t = open(h + "/Cargo.toml").read().replace('path = "/repo"', 'path = "%s"' % wt)
    open(h + "/Cargo.toml", "w").write(t)
    os.environ["VERIF_HARNESS"] = h
    import importlib, vlib, session
    importlib.reload(vlib)
    bins = vlib.build()
    class C:
        seed = 21; cov = {"traces_validated_against_impl": 0}; notes = []
        def model_violation(self, *a): raise SystemExit("model violation")
    behs = session.generate(C(), n, depth, 21)
    reps = session.replay_all(bins, behs, workers=6)
    c = collections.Counter()
    first = {}
    for r in reps:
        for tag, why, i in r.mismatches:
            c[tag] += 1
            first.setdefault(tag, (why, r.hist[i]["a"], r.hist[i]["x"]))
    print("behaviours", len(reps), "mismatches", dict(c))
    for k, v in first.items():
        print(" ", k, v)
finally:
    subprocess.run(["git", "-C", "/repo", "worktree", "remove", "--force", wt], capture_output=True)
